# CPython side of the oracle self-check. Reads one hex-encoded pickle per line on stdin and
# prints, per line:  <genops verdict> <n opcodes> <names joined by ,> | <dis verdict>
# Uses pickletools only (never pickle.loads: generated pickles name real stdlib callables).
import sys, io, pickletools, binascii, warnings
warnings.simplefilter("ignore")
def one(data):
    names = []
    g = "ok"
    try:
        for op, arg, pos in pickletools.genops(data):
            names.append(op.name)
    except Exception as e:
        g = "err:" + type(e).__name__
    d = "ok"
    try:
        pickletools.dis(data, out=io.StringIO())
    except Exception as e:
        d = "err:" + type(e).__name__ + ":" + str(e)[:60].replace("\n", " ")
    return "%s %d %s | %s" % (g, len(names), ",".join(names), d)
def main():
    out = []
    for line in sys.stdin:
        line = line.strip()
        if not line:
            continue
        out.append(one(b"" if line == "-" else binascii.unhexlify(line)))
    sys.stdout.write("\n".join(out) + "\n")
main()
