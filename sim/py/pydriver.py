# Executes call sequences on the freshly built pickle_fuzzer._native (C13). One JSON object per
# input line; one JSON line of hex results per sequence. atheris is a stub on PYTHONPATH.
import sys, json, binascii
import pickle_fuzzer
from pickle_fuzzer.fuzzer import PickleMutator

def run_harness(seq):
    # fuzz_pickle_parser() through the stub atheris: the parser callback collects what it is given
    import atheris
    from pickle_fuzzer.fuzzer import fuzz_pickle_parser
    got = []
    atheris.INPUTS = [binascii.unhexlify(c[1]) for c in seq["calls"]]
    fuzz_pickle_parser(lambda b: got.append(bytes(b)), protocol=seq["ctor"]["protocol"], use_structure_aware=True)
    out = [binascii.hexlify(b).decode() for b in got]
    while len(out) < len(seq["calls"]):
        out.append("ERR:parser was not called")
    return out[:len(seq["calls"])]

def run(seq):
    c = seq["ctor"]
    if c["kind"] == "fuzz_pickle_parser":
        return run_harness(seq)
    if c["kind"] == "PickleMutator":
        obj = PickleMutator(protocol=c["protocol"], seed=c["seed"])
        gen = obj.generator
    else:
        obj = pickle_fuzzer.Generator(protocol=c["protocol"], seed=c["seed"])
        gen = obj
    out = []
    for call in seq["calls"]:
        try:
            name = call[0]
            if name == "generate":
                out.append(binascii.hexlify(gen.generate()).decode())
            elif name == "generate_from_bytes":
                out.append(binascii.hexlify(gen.generate_from_bytes(binascii.unhexlify(call[1]))).decode())
            elif name == "set_opcode_range":
                gen.set_opcode_range(call[1], call[2]); out.append(None)
            elif name == "reset":
                obj.reset(); out.append(None)
            elif name == "mutate":
                out.append(binascii.hexlify(obj.mutate(binascii.unhexlify(call[1]), call[2])).decode())
            else:
                out.append("ERR:unknown call")
        except BaseException as e:
            out.append("ERR:%s:%s" % (type(e).__name__, str(e)[:80]))
    return out

for line in sys.stdin:
    line = line.strip()
    if not line:
        continue
    print(json.dumps({"results": run(json.loads(line))}))
