# regenerates sim/src/optable.rs from the installed CPython pickletools (run from /verif/sim)
import pickletools as pt
def enc(lst):
    s=''
    for x in lst:
        if x is pt.markobject: s+='M'
        elif x is pt.stackslice: s+='S'
        else: s+='o'
    return s
def camel(n): return ''.join(p.capitalize() for p in n.split('_'))
def rows():
    for op in pt.opcodes:
        a = None if op.arg is None else camel(op.arg.name)
        yield (op.name, ord(op.code), a, op.proto, enc(op.stack_before), enc(op.stack_after))
if __name__ == '__main__':
    import sys
    if len(sys.argv) > 1 and sys.argv[1] == '--dump':
        for r in rows():
            print('%s %d %s %d %s %s' % (r[0], r[1], r[2], r[3], r[4] or '-', r[5] or '-'))
        sys.exit(0)
    lines=[]
    lines.append("// GENERATED from CPython pickletools.opcodes (python 3.11) by sim/py/gen_optable.py; `pfsim selftest` diffs it against the live module.")
    lines.append("// before/after: 'M' = markobject, 'S' = stackslice, 'o' = any single object")
    lines.append("use crate::lexer::ArgKind;")
    lines.append("#[derive(Debug)]")
    lines.append("pub struct OpInfo { pub name: &'static str, pub code: u8, pub arg: Option<ArgKind>, pub proto: u8, pub before: &'static str, pub after: &'static str }")
    lines.append("pub static OPCODES: &[OpInfo] = &[")
    for r in rows():
        a = 'None' if r[2] is None else 'Some(ArgKind::%s)' % r[2]
        lines.append('    OpInfo { name: "%s", code: 0x%02x, arg: %s, proto: %d, before: "%s", after: "%s" },'%(r[0], r[1], a, r[3], r[4], r[5]))
    lines.append("];")
    open('src/optable.rs','w').write('\n'.join(lines)+'\n')
