//! `proc` execution (DESIGN §2.3, C09): sweeps executed in child worker processes so that aborts,
//! stack overflows (each worker runs its shard on a 2 MiB thread, like rayon's and std's workers)
//! and kills are seen and attributed to the run that was in flight. Wall clock is used only by the
//! watchdog, never by an oracle.

use crate::desc::Scenario;
use crate::engine::{self, Found, Stats, Tier};
use crate::props::Violation;
use serde_json::{json, Value};
use std::io::{BufRead, BufReader, Write};
use std::process::{Child, Command, Stdio};
use std::sync::{Arc, Mutex};
use std::time::{Duration, Instant};

pub fn stats_to_json(s: &Stats, found: &[Found]) -> Value {
    json!({
        "evaluations": s.evaluations,
        "calls": s.calls,
        "steps": s.steps,
        "entropy_bytes": s.entropy_bytes,
        "counters": s.counters,
        "nontrivial": s.nontrivial.iter().map(|x| x.to_string()).collect::<Vec<_>>(),
        "samples": s.samples,
        "found": found.iter().map(|f| json!({"index": f.index, "scenario": f.scenario.to_json(),
            "violation": {"class": f.violation.class, "detail": f.violation.detail}})).collect::<Vec<_>>(),
    })
}

pub fn stats_from_json(v: &Value, prop: &'static str) -> (Stats, Vec<Found>) {
    let mut s = Stats::default();
    s.evaluations = v["evaluations"].as_u64().unwrap_or(0);
    s.calls = v["calls"].as_u64().unwrap_or(0);
    s.steps = v["steps"].as_u64().unwrap_or(0);
    s.entropy_bytes = v["entropy_bytes"].as_u64().unwrap_or(0);
    if let Some(c) = v["counters"].as_object() {
        for (k, x) in c {
            s.counters.insert(k.clone(), x.as_u64().unwrap_or(0));
        }
    }
    if let Some(a) = v["nontrivial"].as_array() {
        for x in a {
            if let Some(n) = x.as_str().and_then(|t| t.parse::<u64>().ok()) {
                s.nontrivial.insert(n);
            }
        }
    }
    if let Some(a) = v["samples"].as_array() {
        s.samples = a.clone();
    }
    let mut found = vec![];
    if let Some(a) = v["found"].as_array() {
        for f in a {
            if let Ok(sc) = Scenario::from_json(&f["scenario"]) {
                found.push(Found {
                    index: f["index"].as_u64().unwrap_or(0),
                    scenario: sc,
                    violation: Violation::new(prop, f["violation"]["class"].as_str().unwrap_or(""), f["violation"]["detail"].as_str().unwrap_or("")),
                });
            }
        }
    }
    (s, found)
}

/// cap the address space of a worker / isolated child so that a runaway allocation aborts that
/// child (and is attributed to the run in flight) instead of exhausting the machine
pub fn limit_address_space(bytes: u64) {
    unsafe {
        let lim = libc::rlimit { rlim_cur: bytes as libc::rlim_t, rlim_max: bytes as libc::rlim_t };
        libc::setrlimit(libc::RLIMIT_AS, &lim);
    }
}

pub const CHILD_ADDRESS_SPACE: u64 = 6 << 30;

/// child side: run shard k of n single-threaded, reporting progress on stdout. The shard is
/// processed in chunks of the global index space; after each chunk a partial result line `R` is
/// printed, so that a worker that dies loses at most one chunk of statistics and its replacement
/// resumes at the chunk in flight (`start`).
pub fn worker_main(prop: &str, tier: Tier, seed: u64, k: u64, n: u64, runs: u64, skip: &[u64], start: u64) -> i32 {
    let Some(spec) = engine::spec_for(prop, tier) else { return 2 };
    limit_address_space(CHILD_ADDRESS_SPACE);
    let known = engine::load_known();
    let total = runs + engine::extra_count(&spec, tier);
    let out = std::io::stdout();
    let cb = |i: u64, begin: bool| {
        let mut o = out.lock();
        let _ = writeln!(o, "{} {}", if begin { "B" } else { "E" }, i);
        let _ = o.flush();
    };
    let skipset: std::collections::HashSet<u64> = skip.iter().copied().collect();
    let chunk = 8192u64;
    let mut lo = start;
    while lo < total {
        let hi = (lo + chunk).min(total);
        let res = engine::sweep_indices_from(lo, hi, 1e9, &known, (k, n), 1, Some(&cb), |i, stats| {
            if i < lo || skipset.contains(&i) {
                return (Scenario::solo(crate::desc::Config::default_for(0), crate::desc::Entropy::Rand(0)), vec![]);
            }
            engine::run_one(&spec, seed, tier, i, runs, stats)
        });
        let mut o = out.lock();
        let _ = writeln!(o, "R {} {}", hi, stats_to_json(&res.stats, &res.found));
        let _ = o.flush();
        lo = hi;
    }
    let mut o = out.lock();
    let _ = writeln!(o, "D");
    let _ = o.flush();
    0
}

struct WorkerState {
    in_flight: Option<(u64, Instant)>,
    /// partial results not yet merged by the supervisor
    results: Vec<Value>,
    /// first index not covered by a received partial result
    next_start: u64,
    finished: bool,
    done_reading: bool,
}

struct Worker {
    k: u64,
    child: Child,
    state: Arc<Mutex<WorkerState>>,
    skip: Vec<u64>,
}

fn spawn_worker(prop: &str, tier: Tier, seed: u64, k: u64, n: u64, runs: u64, skip: &[u64], start: u64) -> std::io::Result<Worker> {
    let exe = std::env::current_exe()?;
    let mut child = Command::new(exe)
        .args([
            "worker",
            prop,
            tier.name(),
            &seed.to_string(),
            &k.to_string(),
            &n.to_string(),
            &runs.to_string(),
            &format!("s{}", skip.iter().map(|x| x.to_string()).collect::<Vec<_>>().join(",")),
            &start.to_string(),
        ])
        .stdin(Stdio::null())
        .stdout(Stdio::piped())
        .stderr(Stdio::null())
        .spawn()?;
    let state = Arc::new(Mutex::new(WorkerState { in_flight: None, results: vec![], next_start: start, finished: false, done_reading: false }));
    let st = state.clone();
    let stdout = child.stdout.take().unwrap();
    std::thread::spawn(move || {
        let rd = BufReader::new(stdout);
        for line in rd.lines() {
            let Ok(line) = line else { break };
            let mut g = st.lock().unwrap();
            if let Some(rest) = line.strip_prefix("B ") {
                g.in_flight = rest.trim().parse::<u64>().ok().map(|i| (i, Instant::now()));
            } else if line.starts_with("E ") {
                g.in_flight = None;
            } else if let Some(rest) = line.strip_prefix("R ") {
                let mut it = rest.splitn(2, ' ');
                let hi = it.next().and_then(|x| x.parse::<u64>().ok());
                let js = it.next().and_then(|x| serde_json::from_str::<Value>(x).ok());
                if let (Some(hi), Some(js)) = (hi, js) {
                    g.results.push(js);
                    g.next_start = hi;
                }
            } else if line.trim() == "D" {
                g.finished = true;
            }
        }
        st.lock().unwrap().done_reading = true;
    });
    Ok(Worker { k, child, state, skip: skip.to_vec() })
}

pub struct ProcOutcome {
    pub stats: Stats,
    pub found: Vec<Found>,
    pub wall_s: f64,
    pub worker_restarts: u64,
    pub capped: bool,
}

/// run one scenario in a fresh child process with a watchdog; returns violations observed
pub fn exec_isolated(prop: &str, sc: &Scenario, budget: Duration) -> Vec<Violation> {
    let dir = format!("{}/target/tmp", engine::verif_root());
    let _ = std::fs::create_dir_all(&dir);
    let path = format!("{}/iso-{}-{:016x}.json", dir, std::process::id(), crate::desc::digest(sc.to_json().to_string().as_bytes()));
    if std::fs::write(&path, sc.to_json().to_string()).is_err() {
        return vec![];
    }
    let exe = std::env::current_exe().unwrap();
    let child = Command::new(exe).args(["exec-scenario", prop, &path]).stdin(Stdio::null()).stdout(Stdio::piped()).stderr(Stdio::null()).spawn();
    let Ok(mut child) = child else { return vec![] };
    let t0 = Instant::now();
    let status = loop {
        match child.try_wait() {
            Ok(Some(s)) => break Some(s),
            Ok(None) => {
                if t0.elapsed() > budget {
                    let _ = child.kill();
                    let _ = child.wait();
                    break None;
                }
                std::thread::sleep(Duration::from_millis(20));
            }
            Err(_) => break None,
        }
    };
    let mut out = String::new();
    if let Some(mut so) = child.stdout.take() {
        use std::io::Read;
        let _ = so.read_to_string(&mut out);
    }
    let _ = std::fs::remove_file(&path);
    let prop_s: &'static str = match prop {
        "C09" => "C09",
        "C14" => "C14",
        _ => "C09",
    };
    match status {
        None => vec![Violation::new(prop_s, "hang", format!("no result within {:?} in a fresh process", budget))],
        Some(s) if s.success() => out
            .lines()
            .filter_map(|l| l.strip_prefix("V "))
            .filter_map(|l| serde_json::from_str::<Value>(l).ok())
            .map(|v| Violation::new(prop_s, v["class"].as_str().unwrap_or(""), v["detail"].as_str().unwrap_or("")))
            .collect(),
        Some(s) => {
            use std::os::unix::process::ExitStatusExt;
            let how = match s.signal() {
                Some(sig) => format!("signal {}", sig),
                None => format!("exit {}", s.code().unwrap_or(-1)),
            };
            vec![Violation::new(prop_s, format!("process-death({})", how), format!("the worker process died ({}) while executing this scenario", how))]
        }
    }
}

/// child side of exec_isolated
pub fn exec_scenario_main(prop: &str, path: &str) -> i32 {
    let Ok(txt) = std::fs::read_to_string(path) else { return 2 };
    let Ok(v) = serde_json::from_str::<Value>(&txt) else { return 2 };
    let Ok(sc) = Scenario::from_json(&v) else { return 2 };
    limit_address_space(CHILD_ADDRESS_SPACE);
    let (trace, spy) = match engine::solo_spec(prop) {
        Some(spec) => (engine::trace_for(&spec, &sc), spec.spy),
        None => (crate::exec::Trace::Light, false),
    };
    // same stack budget as a worker
    let prop_owned = prop.to_string();
    let h = std::thread::Builder::new()
        .stack_size(2 << 20)
        .spawn(move || {
            let recs = crate::exec::run_scenario(&sc, trace, spy);
            let mut st = Stats::default();
            engine::evaluate_any(&prop_owned, &sc, &recs, &mut st)
        })
        .unwrap();
    match h.join() {
        Ok(vs) => {
            for v in vs {
                println!("V {}", json!({"class": v.class, "detail": v.detail}));
            }
            0
        }
        Err(_) => 3,
    }
}

/// Run the adaptive pattern probes in an isolated child (watchdog + address-space limit). On success
/// the table is exported for the workers; when the child dies or hangs, the probes in flight are
/// re-executed one by one in isolation and the first violation is returned.
fn probe_isolated(prop: &'static str, seed: u64, hang_budget: Duration) -> Option<Found> {
    let dir = format!("{}/target/tmp", engine::verif_root());
    let _ = std::fs::create_dir_all(&dir);
    let path = format!("{}/deep-patterns-{}.json", dir, std::process::id());
    let exe = std::env::current_exe().ok()?;
    let mut child = Command::new(exe)
        .args(["probe-patterns", &seed.to_string(), &path])
        .env("PFSIM_PROBE_PROGRESS", "1")
        .stdin(Stdio::null())
        .stdout(Stdio::piped())
        .stderr(Stdio::null())
        .spawn()
        .ok()?;
    let inflight: Arc<Mutex<std::collections::BTreeMap<u64, (u8, String)>>> = Arc::new(Mutex::new(Default::default()));
    let last = Arc::new(Mutex::new(Instant::now()));
    let (inf2, last2) = (inflight.clone(), last.clone());
    let stdout = child.stdout.take()?;
    let reader = std::thread::spawn(move || {
        for line in BufReader::new(stdout).lines().map_while(|l| l.ok()) {
            let f: Vec<&str> = line.split(' ').collect();
            if f.len() == 2 && (f[0] == "QB" || f[0] == "QE" || f[0] == "TB" || f[0] == "TE") {
                if let Ok(i) = f[1].parse::<u64>() {
                    let mut g = inf2.lock().unwrap();
                    // pair probes: bit 40, marker 255; three-opcode probes: bit 41, marker 254
                    let (bit, marker) = if f[0].starts_with('Q') { (1u64 << 40, 255u8) } else { (1u64 << 41, 254u8) };
                    if f[0].ends_with('B') {
                        g.insert(i | bit, (marker, String::new()));
                    } else {
                        g.remove(&(i | bit));
                    }
                    *last2.lock().unwrap() = Instant::now();
                }
                continue;
            }
            if f.len() >= 3 {
                if let (Ok(i), Ok(p)) = (f[1].parse::<u64>(), f[2].parse::<u8>()) {
                    let mut g = inf2.lock().unwrap();
                    if f[0] == "PB" {
                        g.insert(i, (p, f.get(3).unwrap_or(&"").to_string()));
                    } else {
                        g.remove(&i);
                    }
                    *last2.lock().unwrap() = Instant::now();
                }
            }
        }
    });
    let ok = loop {
        match child.try_wait() {
            Ok(Some(st)) => break st.success(),
            Ok(None) => {
                if last.lock().unwrap().elapsed() > hang_budget {
                    let _ = child.kill();
                    let _ = child.wait();
                    break false;
                }
                std::thread::sleep(Duration::from_millis(50));
            }
            Err(_) => break false,
        }
    };
    let _ = reader.join();
    if ok && std::path::Path::new(&path).exists() {
        std::env::set_var("PFSIM_DEEP_FILE", &path);
        return None;
    }
    // attribute: re-execute the probes that were in flight, each alone
    let cands: Vec<(u64, (u8, String))> = inflight.lock().unwrap().iter().map(|(k, v)| (*k, v.clone())).collect();
    for (i, (p, hexpat)) in cands {
        if p == 254 {
            // a three-opcode probe: the 10-repetition steering run and the two cost runs
            for sc in engine::triple_probe_scenarios((i & !(1 << 41)) as usize) {
                if let Some(v) = exec_isolated(prop, &sc, hang_budget).into_iter().next() {
                    return Some(Found { index: i, scenario: sc, violation: v });
                }
            }
            continue;
        }
        if p == 255 {
            // an opcode-pair probe
            for sc in engine::pair_probe_scenarios((i & !(1 << 40)) as usize) {
                if let Some(v) = exec_isolated(prop, &sc, hang_budget).into_iter().next() {
                    return Some(Found { index: i, scenario: sc, violation: v });
                }
            }
            continue;
        }
        let (pre, pat, once) = engine::Pattern::parse_text(&hexpat);
        let sc = engine::probe_scenario(p, &pre, &pat, once);
        if let Some(v) = exec_isolated(prop, &sc, hang_budget).into_iter().next() {
            let mut sc = sc;
            sc.faults.push(crate::desc::Fault { kind: "stuck", at: 0, detail: format!("pattern probe #{}: periodic script {:02x?} (prefix {:02x?}), 800 opcodes", i, pat, pre) });
            return Some(Found { index: i, scenario: sc, violation: v });
        }
    }
    Some(Found {
        index: 0,
        scenario: engine::probe_scenario(0, &[], &[], false),
        violation: Violation::new(prop, "process-death(probing child)", "the isolated pattern-probing child died or hung but no single probe reproduced it alone"),
    })
}

pub fn sweep_procs(prop: &'static str, tier: Tier, seed: u64, runs: u64, wall_cap_s: f64, hang_budget: Duration) -> ProcOutcome {
    let t0 = Instant::now();
    let known = engine::load_known();
    // a confirmed hang or a worker death that is not a listed known finding ends the sweep early:
    // the check has its violation, and every further hang would cost two watchdog budgets
    let mut fatal = false;
    let n = engine::n_threads() as u64;
    let spec = engine::spec_for(prop, tier).expect("spec");
    if engine::deep_count(&spec, tier) > 0 {
        // the pattern probes execute the code under test: they run in an isolated child too
        if let Some(f) = probe_isolated(prop, seed, hang_budget) {
            return ProcOutcome { stats: Stats::default(), found: vec![f], wall_s: t0.elapsed().as_secs_f64(), worker_restarts: 0, capped: false };
        }
    }
    let mut workers: Vec<Option<Worker>> = (0..n).map(|k| spawn_worker(prop, tier, seed, k, n, runs, &[], 0).ok()).collect();
    let mut stats = Stats::default();
    let mut found: Vec<Found> = vec![];
    let mut restarts = 0u64;
    let mut capped = false;
    let scenario_of = |i: u64| -> Scenario { engine::scenario_of(&spec, seed, tier, i, runs) };
    loop {
        let mut alive = 0;
        for slot in workers.iter_mut() {
            let Some(w) = slot else { continue };
            // watchdog
            let inflight = w.state.lock().unwrap().in_flight;
            if let Some((i, since)) = inflight {
                if since.elapsed() > hang_budget {
                    let _ = w.child.kill();
                    let _ = w.child.wait();
                    if fatal {
                        // the sweep already has its violation and ends after this pass: further
                        // stalled workers are not confirmed one by one (a watchdog budget each)
                        stats.bump("watchdog.kills_after_the_first_confirmed_violation");
                        *slot = None;
                        continue;
                    }
                    // confirm in a fresh process before calling it a hang
                    let sc = scenario_of(i);
                    let vs = exec_isolated(prop, &sc, hang_budget);
                    stats.bump("watchdog.kills");
                    for v in vs {
                        if engine::known_match(&known, &v).is_none() {
                            fatal = true;
                        }
                        found.push(Found { index: i, scenario: sc.clone(), violation: v });
                    }
                    let mut skip = w.skip.clone();
                    skip.push(i);
                    restarts += 1;
                    let (partials, next_start) = {
                        let mut g = w.state.lock().unwrap();
                        (std::mem::take(&mut g.results), g.next_start)
                    };
                    for r in partials {
                        let (s2, f2) = stats_from_json(&r, prop);
                        stats.merge(s2);
                        found.extend(f2);
                    }
                    *slot = spawn_worker(prop, tier, seed, w.k, n, runs, &skip, next_start).ok();
                    alive += 1;
                    continue;
                }
            }
            match w.child.try_wait() {
                Ok(None) => alive += 1,
                Ok(Some(status)) => {
                    // wait for the reader to drain
                    let t1 = Instant::now();
                    while !w.state.lock().unwrap().done_reading && t1.elapsed() < Duration::from_secs(5) {
                        std::thread::sleep(Duration::from_millis(5));
                    }
                    let (partials, next_start, finished, inflight) = {
                        let mut g = w.state.lock().unwrap();
                        (std::mem::take(&mut g.results), g.next_start, g.finished, g.in_flight)
                    };
                    for r in partials {
                        let (s2, f2) = stats_from_json(&r, prop);
                        stats.merge(s2);
                        found.extend(f2);
                    }
                    if finished {
                        *slot = None;
                    } else {
                        // died without finishing: attribute to the run in flight
                        use std::os::unix::process::ExitStatusExt;
                        let how = match status.signal() {
                            Some(sig) => format!("signal {}", sig),
                            None => format!("exit {}", status.code().unwrap_or(-1)),
                        };
                        let mut skip = w.skip.clone();
                        if let Some((i, _)) = inflight {
                            let sc = scenario_of(i);
                            found.push(Found {
                                index: i,
                                scenario: sc,
                                violation: Violation::new(prop, format!("process-death({})", how), format!("worker process died ({}) while executing run {}", how, i)),
                            });
                            skip.push(i);
                            stats.bump("fault.observed.worker_process_deaths");
                            if found.last().is_some_and(|f| engine::known_match(&known, &f.violation).is_none()) {
                                fatal = true;
                            }
                        } else {
                            stats.bump("worker.died_between_runs");
                        }
                        restarts += 1;
                        if restarts > 400 {
                            *slot = None;
                        } else {
                            // at most the chunk in flight is re-executed (deterministic), minus the fatal runs
                            *slot = spawn_worker(prop, tier, seed, w.k, n, runs, &skip, next_start).ok();
                            alive += 1;
                        }
                    }
                }
                Err(_) => {
                    *slot = None;
                }
            }
        }
        if alive == 0 {
            break;
        }
        if fatal || t0.elapsed().as_secs_f64() > wall_cap_s {
            capped = !fatal;
            for slot in workers.iter_mut() {
                if let Some(w) = slot {
                    let _ = w.child.kill();
                    let _ = w.child.wait();
                }
                *slot = None;
            }
            break;
        }
        std::thread::sleep(Duration::from_millis(50));
    }
    if let Ok(p) = std::env::var("PFSIM_DEEP_FILE") {
        let _ = std::fs::remove_file(p);
    }
    found.sort_by_key(|f| f.index);
    ProcOutcome { stats, found, wall_s: t0.elapsed().as_secs_f64(), worker_restarts: restarts, capped }
}
