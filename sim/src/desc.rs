//! Run descriptors: everything that decides one simulated run. A descriptor serialised to JSON
//! *is* the replay file.

use serde_json::{json, Value};

pub const MUT_NAMES: [&str; 7] = [
    "bitflip",
    "boundary",
    "offbyone",
    "stringlen",
    "character",
    "memoindex",
    "typeconfusion",
];

#[derive(Clone, Debug, PartialEq)]
pub struct Config {
    pub protocol: u8,
    pub min_opcodes: usize,
    pub max_opcodes: usize,
    /// ordered mutator kinds (indices into MUT_NAMES)
    pub mutators: Vec<u8>,
    pub rate: f64,
    /// set `mutation_rate` through the pub field (unclamped) instead of `with_mutation_rate`
    pub rate_via_field: bool,
    pub unsafe_mutations: bool,
    pub allow_ext: bool,
    pub allow_buffer: bool,
    /// `with_buffer_size` (documented as limiting the PRNG buffer / maximum pickle size; no property
    /// may depend on it); None = not set
    pub bufsize: Option<usize>,
}

impl Config {
    pub fn default_for(protocol: u8) -> Self {
        Config {
            protocol,
            min_opcodes: 60,
            max_opcodes: 300,
            mutators: vec![],
            rate: 0.1,
            rate_via_field: false,
            unsafe_mutations: false,
            allow_ext: false,
            allow_buffer: false,
            bufsize: None,
        }
    }
    pub fn to_json(&self) -> Value {
        json!({
            "protocol": self.protocol,
            "min_opcodes": self.min_opcodes,
            "max_opcodes": self.max_opcodes,
            "mutators": self.mutators.iter().map(|&m| MUT_NAMES[m as usize]).collect::<Vec<_>>(),
            "rate_bits": format!("{:016x}", self.rate.to_bits()),
            "rate": if self.rate.is_finite() { json!(self.rate) } else { json!(format!("{}", self.rate)) },
            "rate_via_field": self.rate_via_field,
            "unsafe": self.unsafe_mutations,
            "allow_ext": self.allow_ext,
            "allow_buffer": self.allow_buffer,
            "bufsize": self.bufsize.map(|b| b.to_string()),
        })
    }
    pub fn from_json(v: &Value) -> Result<Self, String> {
        let g = |k: &str| v.get(k).ok_or_else(|| format!("config: missing {}", k));
        let muts = g("mutators")?
            .as_array()
            .ok_or("mutators")?
            .iter()
            .map(|m| {
                let s = m.as_str().unwrap_or("");
                MUT_NAMES
                    .iter()
                    .position(|n| *n == s)
                    .map(|p| p as u8)
                    .ok_or_else(|| format!("unknown mutator {}", s))
            })
            .collect::<Result<Vec<_>, _>>()?;
        let rate = u64::from_str_radix(g("rate_bits")?.as_str().ok_or("rate_bits")?, 16)
            .map(f64::from_bits)
            .map_err(|e| e.to_string())?;
        Ok(Config {
            protocol: g("protocol")?.as_u64().ok_or("protocol")? as u8,
            min_opcodes: g("min_opcodes")?.as_u64().ok_or("min")? as usize,
            max_opcodes: g("max_opcodes")?.as_u64().ok_or("max")? as usize,
            mutators: muts,
            rate,
            rate_via_field: g("rate_via_field")?.as_bool().unwrap_or(false),
            unsafe_mutations: g("unsafe")?.as_bool().unwrap_or(false),
            allow_ext: g("allow_ext")?.as_bool().unwrap_or(false),
            allow_buffer: g("allow_buffer")?.as_bool().unwrap_or(false),
            bufsize: v.get("bufsize").and_then(|b| b.as_str()).and_then(|b| b.parse::<usize>().ok()),
        })
    }
}

#[derive(Clone, Debug, PartialEq)]
pub enum Entropy {
    Rand(u64),
    /// the script already contains every injected fault (cut / spliced patterns)
    Bytes(Vec<u8>),
}

impl Entropy {
    pub fn to_json(&self) -> Value {
        match self {
            Entropy::Rand(s) => json!({"mode": "rand", "seed": s.to_string()}),
            Entropy::Bytes(b) => json!({"mode": "bytes", "hex": hex(b)}),
        }
    }
    pub fn from_json(v: &Value) -> Result<Self, String> {
        match v.get("mode").and_then(|m| m.as_str()) {
            Some("rand") => Ok(Entropy::Rand(
                v.get("seed")
                    .and_then(|s| s.as_str())
                    .ok_or("seed")?
                    .parse::<u64>()
                    .map_err(|e| e.to_string())?,
            )),
            Some("bytes") => Ok(Entropy::Bytes(unhex(v.get("hex").and_then(|s| s.as_str()).ok_or("hex")?)?)),
            _ => Err("entropy mode".into()),
        }
    }
    pub fn is_bytes(&self) -> bool {
        matches!(self, Entropy::Bytes(_))
    }
}

/// one operation of a history on a single generator
#[derive(Clone, Debug, PartialEq)]
pub enum HOp {
    /// a generation call: `generate()` (seed is set on the generator) or `generate_from_arbitrary`
    Gen(Entropy),
    Reset,
    SetRange(usize, usize),
    SetRate(f64),
    /// allow_ext_opcodes / allow_buffer_opcodes through the pub fields
    SetFlags(bool, bool),
    /// unsafe_mutations through the pub field, mutators re-created for the new mode
    SetUnsafe(bool),
    /// the mutator list replaced through the pub field
    SetMutators(Vec<u8>),
    /// the protocol of a used generator changed through the pub field `state.version`
    SetProtocol(u8),
}

impl HOp {
    pub fn to_json(&self) -> Value {
        match self {
            HOp::Gen(e) => json!({"op": "gen", "entropy": e.to_json()}),
            HOp::Reset => json!({"op": "reset"}),
            HOp::SetRange(a, b) => json!({"op": "set_range", "min": a, "max": b}),
            HOp::SetRate(r) => json!({"op": "set_rate", "rate_bits": format!("{:016x}", r.to_bits())}),
            HOp::SetFlags(e, b) => json!({"op": "set_flags", "allow_ext": e, "allow_buffer": b}),
            HOp::SetUnsafe(u) => json!({"op": "set_unsafe", "unsafe": u}),
            HOp::SetProtocol(p) => json!({"op": "set_protocol", "protocol": p}),
            HOp::SetMutators(m) => json!({"op": "set_mutators", "mutators": m.iter().map(|&k| MUT_NAMES[k as usize]).collect::<Vec<_>>()}),
        }
    }
    pub fn from_json(v: &Value) -> Result<Self, String> {
        match v.get("op").and_then(|m| m.as_str()) {
            Some("gen") => Ok(HOp::Gen(Entropy::from_json(v.get("entropy").ok_or("entropy")?)?)),
            Some("reset") => Ok(HOp::Reset),
            Some("set_range") => Ok(HOp::SetRange(
                v["min"].as_u64().ok_or("min")? as usize,
                v["max"].as_u64().ok_or("max")? as usize,
            )),
            Some("set_rate") => Ok(HOp::SetRate(f64::from_bits(
                u64::from_str_radix(v["rate_bits"].as_str().ok_or("rate_bits")?, 16).map_err(|e| e.to_string())?,
            ))),
            Some("set_flags") => Ok(HOp::SetFlags(v["allow_ext"].as_bool().unwrap_or(false), v["allow_buffer"].as_bool().unwrap_or(false))),
            Some("set_unsafe") => Ok(HOp::SetUnsafe(v["unsafe"].as_bool().unwrap_or(false))),
            Some("set_protocol") => Ok(HOp::SetProtocol(v["protocol"].as_u64().ok_or("protocol")?.min(5) as u8)),
            Some("set_mutators") => Ok(HOp::SetMutators(
                v["mutators"]
                    .as_array()
                    .ok_or("mutators")?
                    .iter()
                    .filter_map(|m| MUT_NAMES.iter().position(|n| Some(*n) == m.as_str()).map(|p| p as u8))
                    .collect(),
            )),
            _ => Err("hop".into()),
        }
    }
    pub fn is_gen(&self) -> bool {
        matches!(self, HOp::Gen(_))
    }
}

/// provenance of an injected fault (the entropy bytes already contain its effect)
#[derive(Clone, Debug, PartialEq)]
pub struct Fault {
    pub kind: &'static str,
    pub at: usize,
    pub detail: String,
}

impl Fault {
    pub fn to_json(&self) -> Value {
        json!({"kind": self.kind, "at": self.at, "detail": self.detail})
    }
}

/// A single-generator scenario: configuration + history of operations.
#[derive(Clone, Debug, PartialEq)]
pub struct Scenario {
    pub config: Config,
    pub hash_key: u64,
    pub history: Vec<HOp>,
    pub faults: Vec<Fault>,
    /// when present, the (single) generation call's fuzzer script is produced at execution time by
    /// steering the real generator through these opcodes (one choice byte at a time), optionally
    /// followed by one raw choice byte; min = max = number of steered choices
    pub steer: Option<Steer>,
}

#[derive(Clone, Debug, PartialEq)]
pub struct Steer {
    pub ops: Vec<String>,
    pub tail: Option<u8>,
    /// after the steered program: this many free-running choices drawn from a PRNG with this seed
    pub free: Option<(usize, u64)>,
}

impl Scenario {
    pub fn solo(config: Config, entropy: Entropy) -> Self {
        Scenario {
            config,
            hash_key: 0,
            history: vec![HOp::Gen(entropy)],
            faults: vec![],
            steer: None,
        }
    }
    pub fn to_json(&self) -> Value {
        json!({
            "config": self.config.to_json(),
            "hash_key": self.hash_key.to_string(),
            "history": self.history.iter().map(|h| h.to_json()).collect::<Vec<_>>(),
            "faults": self.faults.iter().map(|f| f.to_json()).collect::<Vec<_>>(),
            "steer": self.steer.as_ref().map(|s| json!({"ops": s.ops, "tail": s.tail, "free": s.free.map(|(n, sd)| json!([n, sd.to_string()]))})),
        })
    }
    pub fn from_json(v: &Value) -> Result<Self, String> {
        Ok(Scenario {
            config: Config::from_json(v.get("config").ok_or("config")?)?,
            hash_key: v
                .get("hash_key")
                .and_then(|s| s.as_str())
                .unwrap_or("0")
                .parse::<u64>()
                .map_err(|e| e.to_string())?,
            history: v
                .get("history")
                .and_then(|h| h.as_array())
                .ok_or("history")?
                .iter()
                .map(HOp::from_json)
                .collect::<Result<Vec<_>, _>>()?,
            faults: vec![],
            steer: match v.get("steer") {
                Some(st) if st.is_object() => Some(Steer {
                    ops: st["ops"].as_array().map(|a| a.iter().filter_map(|x| x.as_str().map(|s| s.to_string())).collect()).unwrap_or_default(),
                    tail: st["tail"].as_u64().map(|b| b as u8),
                    free: st["free"].as_array().and_then(|a| Some((a.first()?.as_u64()? as usize, a.get(1)?.as_str()?.parse::<u64>().ok()?))),
                }),
                _ => None,
            },
        })
    }
    pub fn gen_calls(&self) -> usize {
        self.history.iter().filter(|h| h.is_gen()).count()
    }
}

pub fn hex(b: &[u8]) -> String {
    let mut s = String::with_capacity(b.len() * 2);
    for x in b {
        s.push_str(&format!("{:02x}", x));
    }
    s
}

pub fn unhex(s: &str) -> Result<Vec<u8>, String> {
    if s.len() % 2 != 0 {
        return Err("odd hex".into());
    }
    (0..s.len() / 2)
        .map(|i| u8::from_str_radix(&s[2 * i..2 * i + 2], 16).map_err(|e| e.to_string()))
        .collect()
}

/// 64-bit FNV-1a then a splitmix finaliser: cheap, stable digest for outputs and logs
pub fn digest(b: &[u8]) -> u64 {
    let mut h: u64 = 0xcbf29ce484222325;
    for &x in b {
        h ^= x as u64;
        h = h.wrapping_mul(0x100000001b3);
    }
    mix64(h ^ (b.len() as u64))
}

pub fn mix64(mut z: u64) -> u64 {
    z = z.wrapping_add(0x9e3779b97f4a7c15);
    z = (z ^ (z >> 30)).wrapping_mul(0xbf58476d1ce4e5b9);
    z = (z ^ (z >> 27)).wrapping_mul(0x94d049bb133111eb);
    z ^ (z >> 31)
}

/// counter-based derivation: the PRNG of run `index` of stream `label` under VERIF_SEED
pub fn derive_seed(verif_seed: u64, label: &str, index: u64) -> u64 {
    let mut h = mix64(verif_seed ^ 0x5046_5349_4d00_0001);
    h = mix64(h ^ digest(label.as_bytes()));
    mix64(h ^ index.wrapping_mul(0x9e3779b97f4a7c15))
}
