//! Model-based synthesis of object-graph programs (used by C14; the programs are also judged by
//! the other oracles). The *reference machine* R3 is explored breadth-first over a small opcode
//! vocabulary, with states identified up to renaming of object identities; every abstract state in
//! which a container has just become reachable from itself (under CPython's aliasing semantics)
//! yields one shortest program. Each program is then *steered* through the real generator — one
//! choice byte at a time through the fuzzer-bytes seam, observing the emitted opcode in the trace —
//! and the resulting run is handed to the property's oracle (for C14: the live-heap conservation
//! probe). The exploration is of the model, not of the code: it only proposes inputs; verdicts come
//! from the real generator.

use crate::desc::{Entropy, Scenario};
use crate::engine;
use crate::lexer::{self, Arg, Op};
use crate::machine::{Kind, Machine};
use std::collections::{HashMap, HashSet};

/// vocabularies: object construction, aliasing (DUP, memo) and in-place mutation. Two small
/// vocabularies explored separately reach deeper than one large one.
pub const VOCAB_OBJECTS: [&str; 11] = ["GLOBAL", "EMPTY_TUPLE", "EMPTY_DICT", "NONE", "REDUCE", "BUILD", "BINPUT", "BINGET", "DUP", "SETITEM", "TUPLE1"];
pub const VOCAB_CONTAINERS: [&str; 11] = ["EMPTY_LIST", "EMPTY_TUPLE", "EMPTY_DICT", "NONE", "APPEND", "SETITEM", "TUPLE1", "TUPLE2", "DUP", "BINPUT", "BINGET"];

/// MARK-delimited bulk opcodes and sets (protocol >= 4 for EMPTY_SET / ADDITEMS)
pub const VOCAB_MARKED: [&str; 11] = ["EMPTY_SET", "EMPTY_LIST", "EMPTY_DICT", "MARK", "NONE", "ADDITEMS", "APPENDS", "SETITEMS", "TUPLE", "BINPUT", "BINGET"];

/// container sizes that sit just past the small-collection thresholds an implementation may have
/// (inline capacities, 32-entry fast paths, one-byte counts)
pub const PADS: [usize; 2] = [33, 300];

/// the program with its first freshly created list / set / dict filled with `k` members before it is
/// used (MARK NONE*k APPENDS | ADDITEMS | SETITEMS); None when it creates no such container
pub fn padded(prog: &Program, k: usize) -> Option<Program> {
    let at = prog.ops.iter().position(|o| matches!(*o, "EMPTY_LIST" | "EMPTY_SET" | "EMPTY_DICT"))?;
    let (per, close) = match prog.ops[at] {
        "EMPTY_LIST" => (1, "APPENDS"),
        "EMPTY_SET" => (1, "ADDITEMS"),
        _ => (2, "SETITEMS"),
    };
    let mut ops: Vec<&'static str> = prog.ops[..=at].to_vec();
    ops.push("MARK");
    for _ in 0..k * per {
        ops.push("NONE");
    }
    ops.push(close);
    ops.extend_from_slice(&prog.ops[at + 1..]);
    Some(Program { ops })
}

/// lowest protocol class a program can be steered in
fn protocol_for(prog: &Program, i: usize) -> u8 {
    if prog.ops.iter().any(|o| matches!(*o, "EMPTY_SET" | "ADDITEMS" | "FROZENSET")) {
        if i % 2 == 0 { 4 } else { 5 }
    } else if i % 2 == 0 {
        2
    } else {
        4
    }
}

pub fn make_op(name: &'static str, m: &Machine) -> Option<Op> {
    let info = lexer::by_name(name)?;
    let arg = match name {
        "BINPUT" => Arg::Int(m.memo.len() as i128),
        "BINGET" => {
            if m.memo.is_empty() {
                return None;
            }
            Arg::Int(0)
        }
        "GLOBAL" => Arg::Data { start: 0, end: 0 },
        _ => Arg::None,
    };
    Some(Op { pos: 0, end: 0, info, arg })
}

/// canonical key of a machine state: kinds and identities renumbered in order of discovery
fn canon(m: &Machine) -> Vec<u32> {
    let mut ren: HashMap<u32, u32> = HashMap::new();
    let mut order: Vec<u32> = vec![];
    let mut key: Vec<u32> = vec![];
    let id_of = |id: u32, ren: &mut HashMap<u32, u32>, order: &mut Vec<u32>| -> u32 {
        let n = ren.len() as u32;
        *ren.entry(id).or_insert_with(|| {
            order.push(id);
            n
        })
    };
    for s in &m.stack {
        key.push(s.kind as u32 + 1000);
        key.push(id_of(s.id, &mut ren, &mut order));
    }
    key.push(u32::MAX);
    let mut mk: Vec<(&i128, &crate::machine::Slot)> = m.memo.iter().collect();
    mk.sort_by_key(|x| *x.0);
    for (k, s) in mk {
        key.push(*k as u32);
        key.push(id_of(s.id, &mut ren, &mut order));
    }
    key.push(u32::MAX - 1);
    let mut i = 0;
    while i < order.len() {
        let id = order[i];
        i += 1;
        if let Some(ch) = m.children.get(&id) {
            key.push(u32::MAX - 2);
            for c in ch {
                key.push(id_of(*c, &mut ren, &mut order));
            }
        }
    }
    key
}

#[derive(Clone, Debug)]
pub struct Program {
    pub ops: Vec<&'static str>,
}

pub struct SynthStats {
    pub states: u64,
    pub transitions: u64,
    pub depth: usize,
    pub programs: usize,
}

/// representatives kept per abstract state: programs that reach the same reference state along
/// different opcode orders are equivalent for CPython but need not be for the code under test
/// (which copies where CPython aliases), so a few distinct ones are kept
pub const REPS: usize = 4;

/// level-synchronous breadth-first exploration of R3 up to `depth`; returns up to REPS shortest
/// programs per abstract state in which the last opcode created an alias cycle
pub fn cycle_programs(vocab: &[&'static str], depth: usize, max_states: usize) -> (Vec<Program>, SynthStats) {
    let (c, _, st) = explore(vocab, depth, max_states);
    (c, st)
}

/// the exploration proper: (cycle-closing programs, one program per abstract state of the last level, stats)
pub fn explore(vocab: &[&'static str], depth: usize, max_states: usize) -> (Vec<Program>, Vec<Program>, SynthStats) {
    let mut root = Machine::new();
    root.track_graph = true;
    let mut seen: HashSet<Vec<u32>> = HashSet::new();
    seen.insert(canon(&root));
    let mut frontier: Vec<(Machine, Vec<Vec<&'static str>>)> = vec![(root, vec![vec![]])];
    let mut out = vec![];
    let mut cyclic_seen: HashSet<Vec<u32>> = HashSet::new();
    let mut st = SynthStats { states: 1, transitions: 0, depth, programs: 0 };
    for _level in 0..depth {
        let mut next: HashMap<Vec<u32>, (Machine, Vec<Vec<&'static str>>)> = HashMap::new();
        let mut next_order: Vec<Vec<u32>> = vec![];
        let mut cyc: HashMap<Vec<u32>, Vec<Vec<&'static str>>> = HashMap::new();
        let mut cyc_order: Vec<Vec<u32>> = vec![];
        for (m, reps) in &frontier {
            for &name in vocab {
                // keep the search small: at most one memo entry, at most 4 stack slots
                if name == "BINPUT" && !m.memo.is_empty() {
                    continue;
                }
                let Some(op) = make_op(name, m) else { continue };
                let mut n = m.clone();
                n.cycle_seen = false;
                st.transitions += 1;
                match n.step(&op) {
                    Ok(info) if info.kind_violations.is_empty() => {}
                    _ => continue,
                }
                if n.stack.len() > 4 {
                    continue;
                }
                let key = canon(&n);
                if n.cycle_seen {
                    // the program ends with the opcode that closed the cycle
                    if cyclic_seen.contains(&key) {
                        continue;
                    }
                    let e = cyc.entry(key.clone()).or_insert_with(|| {
                        cyc_order.push(key.clone());
                        vec![]
                    });
                    for r in reps {
                        if e.len() < REPS {
                            let mut p = r.clone();
                            p.push(name);
                            e.push(p);
                        }
                    }
                    continue;
                }
                if seen.contains(&key) || seen.len() + next.len() >= max_states {
                    continue;
                }
                let e = next.entry(key.clone()).or_insert_with(|| {
                    next_order.push(key.clone());
                    (n.clone(), vec![])
                });
                for r in reps {
                    if e.1.len() < REPS {
                        let mut p = r.clone();
                        p.push(name);
                        e.1.push(p);
                    }
                }
            }
        }
        for k in cyc_order {
            if let Some(ps) = cyc.remove(&k) {
                cyclic_seen.insert(k);
                for p in ps {
                    out.push(Program { ops: p });
                }
            }
        }
        frontier = vec![];
        for k in next_order {
            if let Some(v) = next.remove(&k) {
                seen.insert(k);
                st.states += 1;
                frontier.push(v);
            }
        }
    }
    st.programs = out.len();
    let leaves: Vec<Program> = frontier.iter().filter_map(|(_, reps)| reps.first().map(|r| Program { ops: r.clone() })).collect();
    (out, leaves, st)
}

/// Steer the real generator to emit `prog` (protocol `p`): returns the fuzzer script, or None when
/// the generator never offers the wanted opcode at some step (its own preconditions differ)
pub fn steer(p: u8, prog: &Program) -> Option<Vec<u8>> {
    let mut script: Vec<u8> = if p >= 4 { vec![0] } else { vec![] };
    let mut done: Vec<u8> = vec![];
    // the byte that selected an opcode last time is tried first (runs of the same opcode)
    let mut last_byte: HashMap<u8, u8> = HashMap::new();
    for name in &prog.ops {
        let want = lexer::by_name(name)?.code;
        let depth = done.len() + 1;
        let mut hit = None;
        let hint = last_byte.get(&want).copied();
        for b in hint.into_iter().chain(0..=255u8) {
            let mut s2 = script.clone();
            s2.push(b);
            let (_sc, _recs, ops, consumed) = engine::tree_probe(p, &s2, depth);
            if ops.len() == depth && ops[..depth - 1] == done[..] && ops[depth - 1] == want {
                if consumed > s2.len() {
                    s2.resize(consumed, 0);
                }
                hit = Some(s2);
                last_byte.insert(want, b);
                break;
            }
        }
        script = hit?;
        done.push(want);
    }
    Some(script)
}

/// program text with runs of one opcode written as NAME*k
pub fn describe(prog: &Program) -> String {
    let mut out: Vec<String> = vec![];
    let mut i = 0;
    while i < prog.ops.len() {
        let mut j = i;
        while j < prog.ops.len() && prog.ops[j] == prog.ops[i] {
            j += 1;
        }
        out.push(if j - i > 2 { format!("{}*{}", prog.ops[i], j - i) } else { prog.ops[i..j].join(" ") });
        i = j;
    }
    out.join(" ")
}

/// one token of a compact steering recipe: `NAME`, `NAME*k` or `(A B ...)*k`
pub fn parse_token(t: &str) -> Option<(Vec<&'static str>, usize)> {
    let (body, k) = match t.rsplit_once('*') {
        Some((b, k)) => (b, k.parse::<usize>().ok()?),
        None => (t, 1),
    };
    let body = body.trim().trim_start_matches('(').trim_end_matches(')');
    let names: Option<Vec<&'static str>> = body.split_whitespace().map(|n| lexer::by_name(n).map(|i| i.name)).collect();
    let names = names?;
    if names.is_empty() {
        return None;
    }
    Some((names, k))
}

/// number of opcodes a token list stands for
pub fn token_ops(tokens: &[String]) -> usize {
    tokens.iter().filter(|t| *t != "+FRAME").filter_map(|t| parse_token(t)).map(|(n, k)| n.len() * k).sum()
}

/// Steering of long periodic programs: every token's unit is steered twice on the real generator
/// (the first repetition starts from the state the previous token left, the second from the state
/// one repetition leaves) and the bytes of the second repetition are replicated for the rest; the
/// resulting script is then verified in one run (the generator must emit exactly the intended
/// opcode sequence), otherwise the recipe counts as not steerable.
pub fn steer_tokens(p: u8, tokens: &[String]) -> Option<Vec<u8>> {
    // the pseudo-token "+FRAME" asks for the framed variant (protocols >= 4: the first script byte
    // is the framing decision)
    let framed = tokens.first().map(|t| t == "+FRAME").unwrap_or(false);
    let tokens = if framed { &tokens[1..] } else { tokens };
    let mut script: Vec<u8> = if p >= 4 { vec![u8::from(framed)] } else { vec![] };
    let mut done: Vec<u8> = vec![];
    let mut last_byte: HashMap<u8, u8> = HashMap::new();
    let mut steer_unit = |script: &mut Vec<u8>, done: &mut Vec<u8>, names: &[&'static str]| -> Option<Vec<u8>> {
        let start = script.len();
        for name in names {
            let want = lexer::by_name(name)?.code;
            let depth = done.len() + 1;
            let hint = last_byte.get(&want).copied();
            let mut hit = None;
            for b in hint.into_iter().chain(0..=255u8) {
                let mut s2 = script.clone();
                s2.push(b);
                let (_sc, _recs, ops, consumed) = engine::tree_probe(p, &s2, depth);
                if ops.len() == depth && ops[depth - 1] == want && ops[..depth - 1] == done[..] {
                    if consumed > s2.len() {
                        s2.resize(consumed, 0);
                    }
                    hit = Some(s2);
                    last_byte.insert(want, b);
                    break;
                }
            }
            *script = hit?;
            done.push(want);
        }
        Some(script[start..].to_vec())
    };
    for t in tokens {
        let (names, k) = parse_token(t)?;
        let codes: Vec<u8> = names.iter().filter_map(|n| lexer::by_name(n).map(|i| i.code)).collect();
        let mut unit = steer_unit(&mut script, &mut done, &names)?;
        let mut remaining = k - 1;
        if remaining >= 1 {
            unit = steer_unit(&mut script, &mut done, &names)?;
            remaining -= 1;
        }
        // replicate the steady-state unit in doubling chunks, each verified by one run; where the
        // generator's menu changes on the way (a threshold such as 256 memo entries switches an
        // opcode off), the divergence is located, the script is cut back to the last good
        // repetition and a fresh unit is steered from there
        let mut chunk = 64usize;
        let mut resteers = 0;
        while remaining > 0 {
            let c = chunk.min(remaining);
            let (s0, d0) = (script.len(), done.len());
            for _ in 0..c {
                script.extend_from_slice(&unit);
                done.extend_from_slice(&codes);
            }
            let (_sc, _recs, ops, _consumed) = engine::tree_probe(p, &script, done.len());
            let good_ops = ops.iter().zip(done.iter()).take_while(|(a, b)| a == b).count();
            if good_ops >= done.len() && ops.len() == done.len() {
                remaining -= c;
                chunk = (chunk * 2).min(1 << 16);
                continue;
            }
            // divergence inside this chunk
            let g = good_ops.saturating_sub(d0) / codes.len();
            script.truncate(s0 + g * unit.len());
            done.truncate(d0 + g * codes.len());
            remaining -= g;
            resteers += 1;
            if resteers > 12 || remaining == 0 {
                return None;
            }
            unit = steer_unit(&mut script, &mut done, &names)?;
            remaining -= 1;
            chunk = 64;
        }
    }
    // verification run
    let (_sc, _recs, ops, _consumed) = engine::tree_probe(p, &script, done.len());
    if ops == done {
        Some(script)
    } else {
        None
    }
}

pub fn scenario_for(p: u8, prog: &Program, script: Vec<u8>) -> Scenario {
    let mut sc = Scenario::solo(engine::tree_config(p, prog.ops.len()), Entropy::Bytes(script));
    sc.faults.push(crate::desc::Fault {
        kind: "steered",
        at: 0,
        detail: format!("steered to the synthesised program {}", describe(prog)),
    });
    sc
}

pub fn kind_name(k: Kind) -> &'static str {
    k.name()
}

/// diagnostic: run a program through R3 and describe where it stops
pub fn debug_run(prog: &[&'static str]) -> String {
    let mut m = Machine::new();
    m.track_graph = true;
    let mut out = String::new();
    for (i, name) in prog.iter().enumerate() {
        let Some(op) = make_op(name, &m) else { return format!("{} step {} {}: cannot build op", out, i, name) };
        match m.step(&op) {
            Ok(info) => out.push_str(&format!("[{} {} viol={:?} depth={} cycle={}] ", i, name, info.kind_violations.iter().map(|k| k.class.clone()).collect::<Vec<_>>(), m.stack.len(), m.cycle_seen)),
            Err(e) => return format!("{} step {} {}: {:?}", out, i, name, e),
        }
    }
    out
}

pub struct SynthOutcome {
    pub programs: usize,
    pub steered: usize,
    pub unsteerable: usize,
    pub states: u64,
    pub transitions: u64,
    pub found: Vec<(Scenario, crate::props::Violation)>,
    pub samples: Vec<String>,
}

/// C14 leg: every synthesised cycle-forming program is steered through the real generator and the
/// run is measured by the live-heap conservation probe
pub fn leak_sweep(depth_objects: usize, depth_containers: usize, stats: &mut engine::Stats) -> SynthOutcome {
    let (mut progs, st1) = cycle_programs(&VOCAB_OBJECTS, depth_objects, 3_000_000);
    let (p2, mut st2) = cycle_programs(&VOCAB_CONTAINERS, depth_containers, 3_000_000);
    progs.extend(p2);
    let (p3, st3) = cycle_programs(&VOCAB_MARKED, depth_containers, 3_000_000);
    progs.extend(p3);
    st2.states += st3.states;
    st2.transitions += st3.transitions;
    // size dimension: the shortest programs again with their first container filled past the
    // small-collection thresholds
    let short_len = if depth_containers >= 9 { 8 } else { 6 };
    let mut extra = vec![];
    for p in progs.iter().filter(|p| p.ops.len() <= short_len) {
        for k in PADS {
            // the large fill only for the very shortest programs (steering cost grows with length)
            if k > 64 && p.ops.len() + 1 > short_len {
                continue;
            }
            if let Some(q) = padded(p, k) {
                extra.push(q);
            }
        }
    }
    stats.add("synth.padded_programs(first container filled with 33 / 300 members)", extra.len() as u64);
    progs.extend(extra);
    let nt = engine::n_threads();
    let parts: Vec<(usize, usize, Vec<(Scenario, crate::props::Violation)>, engine::Stats, Vec<String>)> = std::thread::scope(|s| {
        let progs = &progs;
        let hs: Vec<_> = (0..nt)
            .map(|t| {
                s.spawn(move || {
                    let mut steered = 0;
                    let mut unsteerable = 0;
                    let mut found = vec![];
                    let mut st = engine::Stats::default();
                    let mut samples = vec![];
                    let mut i = t;
                    while i < progs.len() {
                        let p = protocol_for(&progs[i], i);
                        match steer(p, &progs[i]) {
                            Some(script) => {
                                steered += 1;
                                let sc = scenario_for(p, &progs[i], script);
                                engine::tick();
                                if samples.len() < 1 && i % 97 == 5 {
                                    samples.push(format!("protocol {}: {}", p, progs[i].ops.join(" ")));
                                }
                                for v in crate::leak::c14(&sc, &mut st) {
                                    if found.len() < 10 {
                                        found.push((sc.clone(), v));
                                    }
                                }
                            }
                            None => unsteerable += 1,
                        }
                        i += nt;
                    }
                    (steered, unsteerable, found, st, samples)
                })
            })
            .collect();
        hs.into_iter().map(|h| h.join().unwrap()).collect()
    });
    let mut out = SynthOutcome { programs: progs.len(), steered: 0, unsteerable: 0, states: st1.states + st2.states, transitions: st1.transitions + st2.transitions, found: vec![], samples: vec![] };
    for (a, b, f, st, sm) in parts {
        out.steered += a;
        out.unsteerable += b;
        out.found.extend(f);
        out.samples.extend(sm);
        let mut st = st;
        st.evaluations = 0;
        stats.merge(st);
    }
    out
}

pub struct CoverOutcome {
    pub leaves: usize,
    pub steered: usize,
    pub unsteerable: usize,
    pub states: u64,
    pub found: Vec<engine::Found>,
}

/// State-cover leg (C01, C03, C17): one shortest program per abstract reference state reachable
/// within `depth` opcodes of the two vocabularies (aliasing through DUP and the memo, in-place
/// mutation, object construction) is steered through the real generator and judged by the
/// property's oracle. `stride` > 1 samples every stride-th state.
pub fn cover_sweep(prop: &'static str, depth_objects: usize, depth_containers: usize, stride: usize, known: &[engine::KnownFinding], stats: &mut engine::Stats) -> CoverOutcome {
    let (_, mut leaves, st1) = explore(&VOCAB_OBJECTS, depth_objects, 3_000_000);
    let (_, l2, st2) = explore(&VOCAB_CONTAINERS, depth_containers, 3_000_000);
    leaves.extend(l2);
    let leaves: Vec<Program> = leaves.into_iter().step_by(stride.max(1)).collect();
    let trace = if prop == "C17" { crate::exec::Trace::Full } else { crate::exec::Trace::Light };
    let nt = engine::n_threads();
    let parts: Vec<(usize, usize, Vec<engine::Found>, engine::Stats)> = std::thread::scope(|s| {
        let leaves = &leaves;
        let hs: Vec<_> = (0..nt)
            .map(|t| {
                s.spawn(move || {
                    let (mut steered, mut unsteerable) = (0, 0);
                    let mut found = vec![];
                    let mut st = engine::Stats::default();
                    let mut i = t;
                    while i < leaves.len() {
                        let p = [1u8, 2, 3, 4, 5][i % 5];
                        match steer(p, &leaves[i]) {
                            Some(script) => {
                                steered += 1;
                                let sc = scenario_for(p, &leaves[i], script);
                                let recs = crate::exec::run_scenario(&sc, trace, false);
                                for v in engine::evaluate_any(prop, &sc, &recs, &mut st) {
                                    if engine::known_match(known, &v).is_none() && found.len() < 10 {
                                        found.push(engine::Found { index: i as u64, scenario: sc.clone(), violation: v });
                                    }
                                }
                            }
                            None => unsteerable += 1,
                        }
                        i += nt;
                    }
                    (steered, unsteerable, found, st)
                })
            })
            .collect();
        hs.into_iter().map(|h| h.join().unwrap()).collect()
    });
    let mut out = CoverOutcome { leaves: leaves.len(), steered: 0, unsteerable: 0, states: st1.states + st2.states, found: vec![] };
    for (a, b, f, st) in parts {
        out.steered += a;
        out.unsteerable += b;
        out.found.extend(f);
        let mut st = st;
        st.evaluations = 0;
        st.calls = 0;
        stats.merge(st);
    }
    out.found.sort_by_key(|f| f.index);
    out
}
