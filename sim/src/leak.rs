//! C14 — live-heap conservation across generate/reset/drop histories, measured with the harness
//! binary's counting global allocator (thread-local counters: every measurement happens on one
//! thread, allocation and release included).

use crate::desc::{Entropy, HOp, Scenario};
use crate::engine::Stats;
use crate::exec::build_generator;
use crate::lexer;
use crate::machine;
use crate::props::Violation;
use pickle_fuzzer::verif;
use std::alloc::{GlobalAlloc, Layout, System};
use std::cell::Cell;
use std::panic::{catch_unwind, AssertUnwindSafe};

pub struct CountingAlloc;

thread_local! {
    static LIVE: Cell<isize> = const { Cell::new(0) };
    /// cumulative bytes requested on this thread (a deterministic cost proxy)
    static TOTAL: Cell<u64> = const { Cell::new(0) };
}

unsafe impl GlobalAlloc for CountingAlloc {
    unsafe fn alloc(&self, l: Layout) -> *mut u8 {
        let p = System.alloc(l);
        if !p.is_null() {
            let _ = LIVE.try_with(|c| c.set(c.get() + l.size() as isize));
            let _ = TOTAL.try_with(|c| c.set(c.get() + l.size() as u64));
        }
        p
    }
    unsafe fn dealloc(&self, p: *mut u8, l: Layout) {
        System.dealloc(p, l);
        let _ = LIVE.try_with(|c| c.set(c.get() - l.size() as isize));
    }
    unsafe fn alloc_zeroed(&self, l: Layout) -> *mut u8 {
        let p = System.alloc_zeroed(l);
        if !p.is_null() {
            let _ = LIVE.try_with(|c| c.set(c.get() + l.size() as isize));
        }
        p
    }
    unsafe fn realloc(&self, p: *mut u8, l: Layout, new: usize) -> *mut u8 {
        let q = System.realloc(p, l, new);
        if !q.is_null() {
            let _ = LIVE.try_with(|c| c.set(c.get() + new as isize - l.size() as isize));
            let _ = TOTAL.try_with(|c| c.set(c.get() + new as u64));
        }
        q
    }
}

pub fn live() -> isize {
    LIVE.with(|c| c.get())
}

pub fn total_allocated() -> u64 {
    TOTAL.with(|c| c.get())
}

/// build a generator, run the history, drop everything; returns live-bytes delta. Outputs are
/// dropped as soon as they are returned, the scenario itself was allocated before the window.
/// `reps`: the history is executed that many times on the same generator (reset() in between).
/// Returns (delta after drop, live after each repetition relative to the start) or None on panic.
fn probe(sc: &Scenario, reps: usize) -> Option<(isize, [isize; 4])> {
    verif::set_hash_key(sc.hash_key);
    let first_seed = sc.history.iter().find_map(|h| match h {
        HOp::Gen(Entropy::Rand(s)) => Some(*s),
        _ => None,
    });
    let mut per_rep = [0isize; 4];
    let before = live();
    let ok = catch_unwind(AssertUnwindSafe(|| {
        let mut g = build_generator(&sc.config, first_seed, None);
        let mut cfg = sc.config.clone();
        for rep in 0..reps {
            for h in &sc.history {
                match h {
                    HOp::Reset => g.reset(),
                    HOp::SetRange(a, b) => {
                        g.min_opcodes = *a;
                        g.max_opcodes = *b;
                    }
                    HOp::SetRate(r) => g.mutation_rate = *r,
                    HOp::SetFlags(e, b) => {
                        g.allow_ext_opcodes = *e;
                        g.allow_buffer_opcodes = *b;
                    }
                    HOp::SetUnsafe(u) => {
                        g.unsafe_mutations = *u;
                        cfg.unsafe_mutations = *u;
                        g.mutators = crate::exec::make_mutators(&cfg.mutators, *u, &None);
                    }
                    HOp::SetProtocol(p) => g.state.version = crate::exec::version(*p),
                    HOp::SetMutators(m) => {
                        cfg.mutators = m.clone();
                        g.mutators = crate::exec::make_mutators(&cfg.mutators, cfg.unsafe_mutations, &None);
                    }
                    HOp::Gen(Entropy::Rand(s)) => {
                        g.seed = Some(*s);
                        drop(g.generate());
                    }
                    HOp::Gen(Entropy::Bytes(b)) => drop(g.generate_from_arbitrary(b)),
                }
            }
            g.reset();
            if rep < 4 {
                per_rep[rep] = live() - before;
            }
        }
        drop(g);
    }))
    .is_ok();
    let after = live();
    if ok {
        Some((after - before, per_rep))
    } else {
        let _ = crate::exec::take_panic();
        None
    }
}

/// does the reference machine see a container become reachable from itself in any output?
fn classify(sc: &Scenario) -> &'static str {
    let recs = crate::exec::run_scenario(sc, crate::exec::Trace::Off, false);
    for r in &recs {
        if let Some(b) = r.outcome.bytes() {
            let (ops, err) = lexer::lex(b);
            if err.is_none() && machine::run(&ops, true, true).cycle_seen {
                return "rc-cycle";
            }
        }
    }
    "other-leak"
}

pub fn c14(sc: &Scenario, stats: &mut Stats) -> Vec<Violation> {
    crate::engine::tick();
    // steering recipes are resolved first (outside the measured window)
    let resolved;
    let sc = if sc.steer.is_some() {
        match crate::exec::resolve_steer(sc) {
            Some(r) => {
                resolved = r;
                &resolved
            }
            None => {
                stats.bump("steer.not_offered_by_the_generator");
                return vec![];
            }
        }
    } else {
        sc
    };
    let mut v = vec![];
    // first execution = warm-up (one-time lazy initialisation can never be mistaken for a leak)
    if probe(sc, 1).is_none() {
        stats.bump("call.panicked(skipped)");
        return v;
    }
    let Some((delta, _)) = probe(sc, 1) else { return v };
    stats.calls += sc.gen_calls() as u64;
    let has_dup_or_multi = sc.history.len() >= 2;
    if has_dup_or_multi {
        stats.bump("fault.hist.multi_op_history(runs)");
    }
    if delta != 0 {
        let class = classify(sc);
        v.push(Violation::new(
            "C14",
            class,
            format!("{} bytes still live after dropping the generator (second execution of the history; first was warm-up)", delta),
        ));
        return v;
    }
    // steady state: the same history again and again on one generator must not grow the heap
    if let Some((d3, per)) = probe(sc, 3) {
        stats.bump("probe.steady_state_checked");
        if per[2] != per[1] {
            let class = if classify(sc) == "rc-cycle" { "rc-cycle" } else { "unbounded-growth" };
            v.push(Violation::new(
                "C14",
                class,
                format!("live bytes after reset() grow from repetition 2 to 3 of the same history: {} -> {}", per[1], per[2]),
            ));
        } else if d3 != 0 {
            v.push(Violation::new("C14", classify(sc), format!("{} bytes live after drop following 3 repetitions", d3)));
        }
    }
    v
}

/// Soak leg: one long-lived generator, many generate / generate_from_arbitrary / reset calls with
/// varying inputs. After a warm-up (buffers reach their plateau capacity) the live heap measured
/// right after `reset()` must stay bounded: growth beyond `slack` bytes is reported.
pub fn soak(protocol: u8, seed: u64, calls: u64) -> (u64, Option<Violation>) {
    use rand::{Rng, RngCore, SeedableRng};
    let mut rng = rand_chacha::ChaCha8Rng::seed_from_u64(crate::desc::derive_seed(seed, "C14.soak", protocol as u64));
    let cfg = crate::desc::Config::default_for(protocol);
    verif::set_hash_key(seed);
    // everything the harness itself keeps alive is allocated before the window opens
    let mut script = vec![0u8; 512];
    let base = live();
    let mut g = build_generator(&cfg, Some(1), None);
    let warm = calls / 4;
    let mut plateau: isize = 0;
    let mut worst: isize = 0;
    let slack: isize = 512 * 1024;
    let mut done = 0u64;
    for i in 0..calls {
        let r = catch_unwind(AssertUnwindSafe(|| {
            if rng.random_range(0..2) == 0 {
                g.seed = Some(rng.random());
                drop(g.generate());
            } else {
                let n = rng.random_range(0..script.len());
                rng.fill_bytes(&mut script[..n]);
                drop(g.generate_from_arbitrary(&script[..n]));
            }
        }));
        if r.is_err() {
            let _ = crate::exec::take_panic();
            break;
        }
        done += 1;
        if i % 64 == 63 {
            crate::engine::tick();
            g.reset();
            let l = live() - base;
            if i < warm {
                plateau = plateau.max(l);
            } else {
                worst = worst.max(l);
            }
        }
    }
    drop(g);
    let after = live() - base;
    if worst > plateau + slack {
        return (
            done,
            Some(Violation::new(
                "C14",
                "unbounded-growth",
                format!("protocol {}: live bytes after reset() grew from a plateau of {} (first {} calls) to {} within {} calls on one generator", protocol, plateau, warm, worst, calls),
            )),
        );
    }
    if after != 0 {
        return (done, Some(Violation::new("C14", "other-leak", format!("protocol {}: {} bytes live after dropping a generator that served {} calls", protocol, after, done))));
    }
    (done, None)
}
