//! C08 — history independence: the n-th generation call on a reused generator must return
//! exactly what a fresh generator with the configuration in force returns for that call alone.

use crate::desc::{HOp, Scenario};
use crate::engine::Stats;
use crate::exec::{self, CallRecord, Outcome, Trace};
use crate::props::Violation;

pub fn c08(sc: &Scenario, recs: &[CallRecord], stats: &mut Stats) -> Vec<Violation> {
    let mut out = vec![];
    for (ci, rec) in recs.iter().enumerate() {
        stats.calls += 1;
        // reference: fresh generator, only this call
        let fresh = Scenario {
            config: rec.config.clone(),
            hash_key: sc.hash_key ^ 0x9e37_79b9,
            history: vec![HOp::Gen(rec.entropy.clone())],
            faults: vec![],
            steer: None,
        };
        let fr = exec::run_scenario(&fresh, Trace::Off, false);
        let (a, b) = (&rec.outcome, &fr[0].outcome);
        let prev_ops: Vec<&str> = sc.history[..rec.hop]
            .iter()
            .map(|h| match h {
                HOp::Gen(_) => "gen",
                HOp::Reset => "reset",
                HOp::SetRange(..) => "set_range",
                HOp::SetRate(_) => "set_rate",
                HOp::SetFlags(..) => "set_flags",
                HOp::SetUnsafe(_) => "set_unsafe",
                HOp::SetMutators(_) => "set_mutators",
                HOp::SetProtocol(_) => "set_protocol",
            })
            .collect();
        let last_before = prev_ops.last().copied().unwrap_or("none");
        match (a, b) {
            (Outcome::Ok(x), Outcome::Ok(y)) => {
                stats.steps += x.len() as u64;
                if ci >= 1 {
                    stats.nontrivial.insert(crate::desc::digest(x) ^ (ci as u64) << 56);
                    stats.bump(&format!("fault.hist.call_after_{}", last_before));
                }
                if x != y {
                    let appended = x.len() > y.len() && x.ends_with(y);
                    out.push(Violation::new(
                        "C08",
                        format!("history-dependent({},{})", last_before, if appended { "appended" } else { "differs" }),
                        format!(
                            "call #{} (history op {}) returned {} bytes, a fresh generator returns {} bytes for the same configuration and input; previous ops: {:?}",
                            ci, rec.hop, x.len(), y.len(), prev_ops
                        ),
                    ));
                    return out;
                }
            }
            (Outcome::Ok(_), other) | (other, Outcome::Ok(_)) => {
                out.push(Violation::new(
                    "C08",
                    format!("history-dependent({},outcome)", last_before),
                    format!("call #{}: reused and fresh generator disagree on success: {:?}", ci, crate::props::prefix(&format!("{:?}", other))),
                ));
                return out;
            }
            _ => {}
        }
    }
    out
}
