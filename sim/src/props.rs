//! Per-property oracles over one recorded generation call (scenarios solo / hist).
//! Every oracle judges only what its property states; the violation classes are the stable
//! names of DESIGN Appendix A.

use crate::desc::{Config, Scenario};
use crate::exec::{CallRecord, Outcome, SpyRec, SpyVal};
use crate::lexer::{self, Arg, LexError, Op};
use crate::machine::{self, Kind, Machine};
use pickle_fuzzer::verif::{self, Event, Phase};

#[derive(Clone, Debug)]
pub struct Violation {
    pub property: &'static str,
    pub class: String,
    pub detail: String,
    pub step: Option<usize>,
    pub offset: Option<usize>,
}

impl Violation {
    pub fn new(property: &'static str, class: impl Into<String>, detail: impl Into<String>) -> Self {
        Violation {
            property,
            class: class.into(),
            detail: detail.into(),
            step: None,
            offset: None,
        }
    }
    pub fn at(mut self, step: usize, offset: usize) -> Self {
        self.step = Some(step);
        self.offset = Some(offset);
        self
    }
}

/// decoded view of one call's output plus its trace
pub struct Analysis<'a> {
    pub out: &'a [u8],
    pub ops: Vec<Op>,
    pub lex_err: Option<LexError>,
    /// number of leading PROTO / FRAME opcodes (they have no trace record)
    pub header: usize,
    /// (opcode byte, depth, kinds, memo) of every K2 record in order
    pub op_events: Vec<&'a Event>,
    /// K2 records between "target chosen" and "body done"
    pub body_events: Option<usize>,
    pub target: Option<usize>,
    pub out_len_at_begin: Option<usize>,
}

pub fn analyse<'a>(rec: &'a CallRecord) -> Option<Analysis<'a>> {
    let out = rec.outcome.bytes()?;
    let (ops, lex_err) = lexer::lex(out);
    let mut header = 0;
    for op in ops.iter().take(2) {
        if (header == 0 && op.name() == "PROTO") || (op.name() == "FRAME" && header <= 1) {
            header += 1;
        } else {
            break;
        }
    }
    let mut op_events = Vec::new();
    let mut body_events = None;
    let mut target = None;
    let mut in_body = false;
    let mut count = 0usize;
    let mut out_len_at_begin = None;
    for e in &rec.events {
        match e {
            Event::Op { .. } => {
                op_events.push(e);
                if in_body {
                    count += 1;
                }
            }
            Event::Phase { phase, value, out_len, .. } => match phase {
                Phase::Begin => out_len_at_begin = Some(*out_len),
                Phase::Target => {
                    target = Some(*value);
                    in_body = true;
                    count = 0;
                }
                Phase::BodyDone => {
                    in_body = false;
                    body_events = Some(count);
                }
                Phase::Finish => {}
            },
        }
    }
    Some(Analysis {
        out,
        ops,
        lex_err,
        header,
        op_events,
        body_events,
        target,
        out_len_at_begin,
    })
}

fn ev_opcode(e: &Event) -> u8 {
    match e {
        Event::Op { opcode, .. } => *opcode,
        _ => 0,
    }
}

// ------------------------------------------------------------------------------------------
// C01 / C02 / C03 — reference machine verdicts (safe mode only)

pub fn c01(a: &Analysis) -> Vec<Violation> {
    let mut v = vec![];
    if let Some(e) = &a.lex_err {
        v.push(Violation::new("C01", "undecodable", format!("{} ({})", e.class_name(), e.detail)).at(a.ops.len(), e.pos));
        return v;
    }
    let verdict = machine::run(&a.ops, true, false);
    if let Some((i, e)) = &verdict.dis_error {
        if !e.is_memo() {
            let op = &a.ops[*i];
            v.push(Violation::new("C01", e.class(op.name()), format!("{:?} at opcode #{} {} offset {}", e, i, op.name(), op.pos)).at(*i, op.pos));
        }
    }
    v
}

pub fn c02(a: &Analysis) -> Vec<Violation> {
    let mut v = vec![];
    if a.lex_err.is_some() {
        return v;
    }
    let verdict = machine::run(&a.ops, true, false);
    let mut firsts: Vec<(usize, machine::DisError)> = verdict.memo_errors.clone();
    if let Some((i, e)) = &verdict.dis_error {
        if e.is_memo() {
            firsts.push((*i, e.clone()));
        }
    }
    firsts.sort_by_key(|x| x.0);
    if let Some((i, e)) = firsts.first() {
        let op = &a.ops[*i];
        v.push(
            Violation::new(
                "C02",
                e.class(op.name()),
                format!("{:?} at opcode #{} {} arg {:?} offset {} ({} memo errors in this pickle)", e, i, op.name(), op.arg, op.pos, firsts.len()),
            )
            .at(*i, op.pos),
        );
    }
    v
}

pub fn c03(a: &Analysis) -> Vec<Violation> {
    let mut v = vec![];
    // when the stream stops decoding somewhere (C04's business), the opcodes decoded up to that
    // point were still emitted and executed: their operands are judged
    let verdict = machine::run(&a.ops, true, false);
    if let Some((i, k)) = verdict.kind_violations.first() {
        let op = &a.ops[*i];
        v.push(Violation::new("C03", k.class.clone(), format!("opcode #{} {} at offset {}", i, op.name(), op.pos)).at(*i, op.pos));
    }
    v
}

// ------------------------------------------------------------------------------------------
// C04 — well-formed opcode stream under every configuration

pub fn c04(a: &Analysis) -> Vec<Violation> {
    let mut v = vec![];
    if let Some(e) = &a.lex_err {
        v.push(Violation::new("C04", e.class_name(), e.detail.clone()).at(a.ops.len(), e.pos));
        return v;
    }
    let last = a.ops.last().expect("lex ok implies STOP");
    if last.end != a.out.len() {
        v.push(
            Violation::new(
                "C04",
                "trailing-bytes",
                format!("first STOP at offset {} but output has {} bytes", last.pos, a.out.len()),
            )
            .at(a.ops.len() - 1, last.pos),
        );
    }
    if let Some((i, c)) = lexer::domain_errors(&a.ops).first() {
        let op = &a.ops[*i];
        v.push(Violation::new("C04", c.clone(), format!("opcode #{} {} arg {:?} at offset {}", i, op.name(), op.arg, op.pos)).at(*i, op.pos));
    }
    v
}

// ------------------------------------------------------------------------------------------
// C05 — protocol vocabulary and header (safe mode)

pub fn c05(cfg: &Config, a: &Analysis) -> Vec<Violation> {
    let mut v = vec![];
    let p = cfg.protocol;
    // header
    let protos: Vec<usize> = a.ops.iter().enumerate().filter(|(_, o)| o.name() == "PROTO").map(|(i, _)| i).collect();
    if p >= 2 {
        if protos.is_empty() {
            v.push(Violation::new("C05", "proto-header(missing)", "no PROTO opcode"));
        } else if protos[0] != 0 {
            v.push(Violation::new("C05", "proto-header(missing)", format!("first PROTO is opcode #{}", protos[0])).at(protos[0], a.ops[protos[0]].pos));
        } else if a.ops[0].int() != Some(p as i128) {
            v.push(Violation::new("C05", "proto-header(wrong-arg)", format!("PROTO {:?} for protocol {}", a.ops[0].arg, p)).at(0, 0));
        }
        if protos.len() > 1 {
            v.push(Violation::new("C05", "proto-header(duplicate)", format!("{} PROTO opcodes", protos.len())).at(protos[1], a.ops[protos[1]].pos));
        }
    } else if let Some(&i) = protos.first() {
        v.push(Violation::new("C05", "proto-header(unexpected)", format!("PROTO in a protocol-{} pickle", p)).at(i, a.ops[i].pos));
    }
    // vocabulary
    let body_end = a.header + a.body_events.unwrap_or(usize::MAX / 2);
    for (i, op) in a.ops.iter().enumerate() {
        if op.info.proto > p && op.name() != "PROTO" {
            let phase = if i >= body_end { "tail" } else { "body" };
            v.push(
                Violation::new(
                    "C05",
                    format!("proto-overreach({},{})", op.name(), phase),
                    format!("{} (protocol {}) at opcode #{} offset {} in a protocol-{} pickle", op.name(), op.info.proto, i, op.pos, p),
                )
                .at(i, op.pos),
            );
            break;
        }
    }
    if p == 0 {
        if let Some(pos) = a.out.iter().position(|&b| b >= 0x80) {
            // only report separately when the vocabulary check found nothing
            if !v.iter().any(|x| x.class.starts_with("proto-overreach")) {
                v.push(Violation::new("C05", "non-ascii-p0", format!("byte 0x{:02x} at offset {}", a.out[pos], pos)).at(0, pos));
            }
        }
    }
    v
}

// ------------------------------------------------------------------------------------------
// C06 — FRAME

pub fn c06(cfg: &Config, a: &Analysis) -> Vec<Violation> {
    let mut v = vec![];
    let frames: Vec<usize> = a.ops.iter().enumerate().filter(|(_, o)| o.name() == "FRAME").map(|(i, _)| i).collect();
    if cfg.protocol <= 3 {
        if let Some(&i) = frames.first() {
            v.push(Violation::new("C06", "frame-in-low-protocol", format!("FRAME at opcode #{} in protocol {}", i, cfg.protocol)).at(i, a.ops[i].pos));
        }
        return v;
    }
    if frames.len() > 1 {
        v.push(Violation::new("C06", format!("frame-count({})", frames.len()), "more than one FRAME").at(frames[1], a.ops[frames[1]].pos));
    }
    if let Some(&i) = frames.first() {
        let op = &a.ops[i];
        if !(i == 1 && a.ops[0].name() == "PROTO") {
            v.push(Violation::new("C06", "frame-position", format!("FRAME is opcode #{} (offset {})", i, op.pos)).at(i, op.pos));
        }
        let want = a.out.len() as i128 - op.end as i128;
        let got = op.int().unwrap_or(-1);
        if got != want {
            v.push(
                Violation::new(
                    "C06",
                    format!("frame-length({})", got - want),
                    format!("FRAME says {} bytes, {} bytes follow its argument", got, want),
                )
                .at(i, op.pos),
            );
        }
    }
    v
}

// ------------------------------------------------------------------------------------------
// C10 — opt-in opcodes

pub fn c10(cfg: &Config, a: &Analysis) -> Vec<Violation> {
    let mut v = vec![];
    for (i, op) in a.ops.iter().enumerate() {
        match op.name() {
            "EXT1" | "EXT2" | "EXT4" if !cfg.allow_ext => {
                v.push(Violation::new("C10", format!("ext-without-flag({})", op.name()), format!("opcode #{} offset {}", i, op.pos)).at(i, op.pos));
                break;
            }
            "NEXT_BUFFER" | "READONLY_BUFFER" if !cfg.allow_buffer => {
                v.push(Violation::new("C10", format!("buffer-without-flag({})", op.name()), format!("opcode #{} offset {}", i, op.pos)).at(i, op.pos));
                break;
            }
            _ => {}
        }
    }
    v
}

// ------------------------------------------------------------------------------------------
// C11 — opcode-count knobs

pub fn c11(cfg: &Config, a: &Analysis) -> Vec<Violation> {
    let mut v = vec![];
    let (min, max) = (cfg.min_opcodes, cfg.max_opcodes);
    let Some(t) = a.target else {
        v.push(Violation::new("C11", "target-out-of-range", "no target marker in the trace"));
        return v;
    };
    let ok = if max <= min { t == min } else { t >= min && t <= max };
    if !ok {
        v.push(Violation::new("C11", "target-out-of-range", format!("T={} for min={} max={}", t, min, max)));
    }
    let body = a.body_events.unwrap_or(0);
    if body != t {
        v.push(Violation::new(
            "C11",
            format!("body-count({})", body as i128 - t as i128),
            format!("{} stack-effect records in the body for T={}", body, t),
        ));
    }
    if a.lex_err.is_none() {
        let n = a.ops.len();
        // decoded opcodes: header + body + tail + STOP must equal the records (+ header)
        let records = a.op_events.len();
        if n != a.header + records {
            v.push(Violation::new(
                "C11",
                "body-step-not-one-opcode",
                format!("{} decoded opcodes but {} header + {} emission records", n, a.header, records),
            ));
        } else {
            let tail = records.saturating_sub(body + 1);
            if tail > 2 * t + 1 {
                v.push(Violation::new("C11", "tail-too-long", format!("tail of {} opcodes for T={}", tail, t)));
            }
        }
        let lo = min + 1;
        let hi = 3 * min.max(max) + 4;
        if n < lo || n > hi {
            v.push(Violation::new("C11", "total-out-of-range", format!("{} opcodes, bounds [{}, {}]", n, lo, hi)));
        }
    }
    v
}

// ------------------------------------------------------------------------------------------
// C17 — simulated state mirrors the reference machine after every opcode (needs full trace)

pub fn gen_kind_name(k: u8) -> &'static str {
    match k {
        verif::K_INT => "Int",
        verif::K_FLOAT => "Float",
        verif::K_BOOL => "Bool",
        verif::K_NONE => "None",
        verif::K_BYTES => "Bytes",
        verif::K_STRING => "String",
        verif::K_BYTEARRAY => "ByteArray",
        verif::K_LIST => "List",
        verif::K_TUPLE => "Tuple",
        verif::K_DICT => "Dict",
        verif::K_SET => "Set",
        verif::K_FROZENSET => "FrozenSet",
        verif::K_MARK => "Mark",
        verif::K_GLOBAL => "Global",
        verif::K_INSTANCE => "Instance",
        verif::K_CALLABLE => "Callable",
        verif::K_EXTENSION => "Extension",
        verif::K_ANY => "Any",
        _ => "?",
    }
}

/// R4: compatibility of a generator kind with a reference kind
pub fn compatible(g: u8, r: Kind) -> bool {
    use Kind::*;
    if g == verif::K_MARK || r == Mark {
        return g == verif::K_MARK && r == Mark;
    }
    if r == Any || g == verif::K_ANY {
        return true;
    }
    match g {
        verif::K_LIST => r == List,
        verif::K_TUPLE => r == Tuple,
        verif::K_DICT => r == Dict,
        verif::K_SET => r == Set,
        verif::K_FROZENSET => r == FrozenSet,
        verif::K_FLOAT => r == Float,
        verif::K_NONE => r == None,
        verif::K_BYTEARRAY => r == ByteArray,
        verif::K_CALLABLE | verif::K_GLOBAL => r == Global,
        verif::K_INSTANCE => r == Object,
        verif::K_STRING => matches!(r, Str | LegacyStr),
        verif::K_BYTES => matches!(r, Bytes | LegacyStr | Buffer),
        verif::K_INT | verif::K_BOOL => matches!(r, Int | Bool),
        _ => false,
    }
}

pub struct C17Stats {
    pub steps_compared: usize,
}

pub fn c17(a: &Analysis, stats: &mut C17Stats) -> Vec<Violation> {
    let mut v = vec![];
    // a stream that stops decoding (C04's business in itself) is still judged on its decodable
    // prefix: the generator's steps must line up with the opcodes the reference machine reads
    let mut m = Machine::new();
    m.lenient_redefine = true;
    let mut ev = a.op_events.iter();
    for (i, op) in a.ops.iter().enumerate() {
        if i >= a.header {
            let Some(e) = ev.next() else {
                v.push(Violation::new("C17", format!("trace-mismatch({})", op.name()), format!("opcode #{} {} was written without a stack-effect step", i, op.name())).at(i, op.pos));
                return v;
            };
            let Event::Op { opcode, depth, kinds, memo, .. } = e else { unreachable!() };
            if *opcode != op.code() {
                v.push(
                    Violation::new(
                        "C17",
                        format!("trace-mismatch({})", op.name()),
                        format!("opcode #{} in the bytes is {} (0x{:02x}) but the simulated step was for 0x{:02x}", i, op.name(), op.code(), opcode),
                    )
                    .at(i, op.pos),
                );
                return v;
            }
            // state before this opcode == state after the previous one
            let prev = if i > 0 { a.ops[i - 1].name() } else { "start" };
            if *depth != m.stack.len() {
                v.push(
                    Violation::new(
                        "C17",
                        format!("depth-drift({})", prev),
                        format!("after opcode #{} {}: generator depth {} vs reference {}", i.saturating_sub(1), prev, depth, m.stack.len()),
                    )
                    .at(i.saturating_sub(1), op.pos),
                );
                return v;
            }
            if let Some(kinds) = kinds {
                stats.steps_compared += 1;
                for (slot, (&g, r)) in kinds.iter().zip(m.stack.iter()).enumerate() {
                    let gm = g == verif::K_MARK;
                    if gm != r.is_mark() {
                        v.push(
                            Violation::new(
                                "C17",
                                format!("mark-drift({})", prev),
                                format!("after opcode #{} {}: slot {} generator {} vs reference {}", i.saturating_sub(1), prev, slot, gen_kind_name(g), r.kind.name()),
                            )
                            .at(i.saturating_sub(1), op.pos),
                        );
                        return v;
                    }
                    if !compatible(g, r.kind) {
                        v.push(
                            Violation::new(
                                "C17",
                                format!("kind-drift({},{},{})", prev, gen_kind_name(g), r.kind.name()),
                                format!("after opcode #{} {}: slot {} generator {} vs reference {}", i.saturating_sub(1), prev, slot, gen_kind_name(g), r.kind.name()),
                            )
                            .at(i.saturating_sub(1), op.pos),
                        );
                        return v;
                    }
                }
                if let Some(memo) = memo {
                    let mut rk: Vec<i128> = m.memo.keys().copied().collect();
                    rk.sort_unstable();
                    let gk: Vec<i128> = memo.iter().map(|&k| k as i128).collect();
                    if rk != gk {
                        v.push(
                            Violation::new(
                                "C17",
                                format!("memo-drift({})", prev),
                                format!(
                                    "after opcode #{} {}: generator memo has {} keys, reference {} (first difference {:?})",
                                    i.saturating_sub(1),
                                    prev,
                                    gk.len(),
                                    rk.len(),
                                    gk.iter().zip(rk.iter()).find(|(a, b)| a != b)
                                ),
                            )
                            .at(i.saturating_sub(1), op.pos),
                        );
                        return v;
                    }
                }
            }
        }
        if m.step(op).is_err() {
            // the reference machine rejects the pickle here: C01/C02's business, nothing to mirror
            return v;
        }
    }
    if let Some(e) = ev.next() {
        v.push(Violation::new(
            "C17",
            if a.lex_err.is_some() { "trace-mismatch(undecodable)" } else { "trace-mismatch(none)" },
            format!("a simulated step for opcode 0x{:02x} has no {}opcode in the bytes", ev_opcode(e), if a.lex_err.is_some() { "decodable " } else { "" }),
        ));
    }
    v
}

// ------------------------------------------------------------------------------------------
// C15 — rate extremes (in situ, from Spy records)

/// documented applicability: which mutators act on which value kinds
pub fn applicable(mutator_kind: u8, val: &SpyVal) -> bool {
    match (mutator_kind, val) {
        (0, SpyVal::Int(_)) | (0, SpyVal::Long(_)) => true, // bitflip
        (1, SpyVal::Int(_)) | (1, SpyVal::Long(_)) | (1, SpyVal::Float(_)) => true, // boundary
        (2, SpyVal::Int(_)) | (2, SpyVal::Long(_)) | (2, SpyVal::Memo(_)) => true, // offbyone
        (3, SpyVal::Str(_)) | (3, SpyVal::Bytes(_)) => true, // stringlen
        (4, SpyVal::Str(s)) => !s.is_empty(),               // character
        (4, SpyVal::Bytes(b)) => !b.is_empty(),
        (5, SpyVal::Memo(_)) => true, // memoindex
        _ => false,
    }
}

pub struct C15Stats {
    pub sites: usize,
    pub sites_after_exhaustion_possible: usize,
    pub fired: usize,
}

pub fn c15(rec: &CallRecord, stats: &mut C15Stats) -> Vec<Violation> {
    let mut v = vec![];
    let rate = rec.config.rate;
    if !(rate == 0.0 || rate == 1.0) {
        return v;
    }
    let mode = if rec.entropy.is_bytes() { "bytes" } else { "rand" };
    // group Value records into sites: a site starts with mutator index 0
    let mut site: Vec<&SpyRec> = vec![];
    let mut sites: Vec<Vec<&SpyRec>> = vec![];
    for r in &rec.spy {
        match r {
            SpyRec::Value { mi, .. } => {
                if *mi == 0 && !site.is_empty() {
                    sites.push(std::mem::take(&mut site));
                }
                site.push(r);
            }
            SpyRec::Post { fired, kind, prefix_changed, old_tail, new_tail, .. } => {
                if rate == 0.0 && (*fired || *prefix_changed || old_tail != new_tail) {
                    v.push(Violation::new(
                        "C15",
                        "rewrite-at-rate-0",
                        format!("{} rewrote emitted bytes at rate 0 ({} entropy)", crate::exec::mut_name(*kind), mode),
                    ));
                    return v;
                }
            }
        }
    }
    if !site.is_empty() {
        sites.push(site);
    }
    // at rate 1 the mutated value must also be the value that is emitted: when a string / byte
    // string mutation is directly followed by an emission with a binary length-prefixed argument,
    // that emission ends with the mutated payload (a value site whose emission is skipped is
    // followed by the next site instead and is not judged)
    if rate == 1.0 {
        for (i, r) in rec.spy.iter().enumerate() {
            let SpyRec::Value { kind, out: Some(mutated), .. } = r else { continue };
            let payload: &[u8] = match mutated {
                SpyVal::Str(t) => t.as_bytes(),
                SpyVal::Bytes(b) => b,
                _ => continue,
            };
            let Some(SpyRec::Post { mi: 0, old_tail, .. }) = rec.spy.get(i + 1) else { continue };
            let Some(&op) = old_tail.first() else { continue };
            // BINUNICODE, SHORT_BINUNICODE, BINUNICODE8, BINBYTES, SHORT_BINBYTES, BINBYTES8, BINSTRING, SHORT_BINSTRING, BYTEARRAY8
            if ![b'X', 0x8c, 0x8d, b'B', b'C', 0x8e, b'T', b'U', 0x96].contains(&op) {
                continue;
            }
            if !old_tail.ends_with(payload) {
                v.push(Violation::new(
                    "C15",
                    format!("mutation-dropped({},{},{})", crate::exec::mut_name(*kind), mutated.kind(), mode),
                    format!("{} returned a mutated value of {} bytes at rate 1, but the emission that follows (opcode 0x{:02x}, {} bytes) does not carry it", crate::exec::mut_name(*kind), payload.len(), op, old_tail.len()),
                ));
                return v;
            }
        }
    }
    for s in sites {
        stats.sites += 1;
        let n_muts = rec.config.mutators.len();
        for (pos, r) in s.iter().enumerate() {
            let SpyRec::Value { mi, kind, input, out, .. } = r else { continue };
            if rate == 0.0 {
                if out.is_some() {
                    v.push(Violation::new(
                        "C15",
                        format!("fired-at-rate-0({},{},{})", crate::exec::mut_name(*kind), input.kind(), mode),
                        format!("{:?} -> {:?}", input, out),
                    ));
                    return v;
                }
            } else {
                let app = applicable(*kind, input);
                if out.is_some() {
                    stats.fired += 1;
                }
                if app && out.is_none() {
                    v.push(Violation::new(
                        "C15",
                        format!("skipped-at-rate-1({},{},{})", crate::exec::mut_name(*kind), input.kind(), mode),
                        format!("mutator #{} {} is applicable to {:?} but did not mutate it at rate 1", mi, crate::exec::mut_name(*kind), input),
                    ));
                    return v;
                }
                if out.is_some() && pos + 1 != s.len() {
                    v.push(Violation::new(
                        "C15",
                        format!("skipped-at-rate-1({},{},{})", crate::exec::mut_name(*kind), input.kind(), mode),
                        "a later mutator was consulted after one had mutated the value".to_string(),
                    ));
                    return v;
                }
                // a site that ends without a mutation must have consulted every mutator
                if out.is_none() && pos + 1 == s.len() && (*mi as usize) + 1 != n_muts {
                    v.push(Violation::new(
                        "C15",
                        format!("skipped-at-rate-1({},{},{})", crate::exec::mut_name(*kind), input.kind(), mode),
                        format!("site ended at mutator #{} of {} without a mutation", mi, n_muts),
                    ));
                    return v;
                }
            }
        }
    }
    v
}

// ------------------------------------------------------------------------------------------
// C16 — mutator contracts (in situ, from Spy records)

pub const INT_BOUNDS: [i32; 5] = [0, -1, 1, i32::MAX, i32::MIN];
pub const LONG_BOUNDS: [i64; 5] = [0, -1, 1, i64::MAX, i64::MIN];

fn is_float_boundary(x: f64) -> bool {
    x.is_nan()
        || [0.0, -1.0, 1.0, f64::MAX, f64::MIN, f64::INFINITY, f64::NEG_INFINITY]
            .iter()
            .any(|b| b.to_bits() == x.to_bits())
}

/// contract of one value mutation. `unsafe_mode` is the mode the mutator was created with.
pub fn contract_value(kind: u8, unsafe_mode: bool, input: &SpyVal, out: &SpyVal) -> Result<(), String> {
    match (kind, input, out) {
        // bit-flip: exactly one bit
        (0, SpyVal::Int(a), SpyVal::Int(b)) => {
            if (a ^ b).count_ones() == 1 {
                Ok(())
            } else {
                Err(format!("one-bit: {} -> {}", a, b))
            }
        }
        (0, SpyVal::Long(a), SpyVal::Long(b)) => {
            if (a ^ b).count_ones() == 1 {
                Ok(())
            } else {
                Err(format!("one-bit: {} -> {}", a, b))
            }
        }
        // boundary
        (1, SpyVal::Int(_), SpyVal::Int(b)) => {
            if INT_BOUNDS.contains(b) {
                Ok(())
            } else {
                Err(format!("listed-boundary: {}", b))
            }
        }
        (1, SpyVal::Long(_), SpyVal::Long(b)) => {
            if LONG_BOUNDS.contains(b) {
                Ok(())
            } else {
                Err(format!("listed-boundary: {}", b))
            }
        }
        (1, SpyVal::Float(_), SpyVal::Float(b)) => {
            if is_float_boundary(*b) {
                Ok(())
            } else {
                Err(format!("listed-boundary: {}", b))
            }
        }
        // off-by-one
        (2, SpyVal::Int(a), SpyVal::Int(b)) => {
            if *b == a.wrapping_add(1) || *b == a.wrapping_sub(1) {
                Ok(())
            } else {
                Err(format!("plus-minus-one-wrapping: {} -> {}", a, b))
            }
        }
        (2, SpyVal::Long(a), SpyVal::Long(b)) => {
            if *b == a.wrapping_add(1) || *b == a.wrapping_sub(1) {
                Ok(())
            } else {
                Err(format!("plus-minus-one-wrapping: {} -> {}", a, b))
            }
        }
        (2, SpyVal::Memo(a), SpyVal::Memo(b)) => {
            if *b == a.saturating_add(1) || *b == a.saturating_sub(1) {
                Ok(())
            } else {
                Err(format!("plus-minus-one-saturating: {} -> {}", a, b))
            }
        }
        // string length: prefix | input + 1..=9 items | doubled
        (3, SpyVal::Str(a), SpyVal::Str(b)) => {
            let ac: Vec<char> = a.chars().collect();
            let bc: Vec<char> = b.chars().collect();
            let prefix = bc.len() <= ac.len() && ac[..bc.len()] == bc[..];
            let extended = bc.len() > ac.len() && bc.len() - ac.len() <= 9 && bc[..ac.len()] == ac[..];
            let doubled = bc.len() == 2 * ac.len() && bc[..ac.len()] == ac[..] && bc[ac.len()..] == ac[..];
            if prefix || extended || doubled {
                Ok(())
            } else {
                Err(format!("prefix-extend-double: {:?} -> {:?}", a, b))
            }
        }
        (3, SpyVal::Bytes(a), SpyVal::Bytes(b)) => {
            let prefix = b.len() <= a.len() && a[..b.len()] == b[..];
            let extended = b.len() > a.len() && b.len() - a.len() <= 9 && b[..a.len()] == a[..];
            let doubled = b.len() == 2 * a.len() && b[..a.len()] == a[..] && b[a.len()..] == a[..];
            if prefix || extended || doubled {
                Ok(())
            } else {
                Err(format!("prefix-extend-double: {} bytes -> {} bytes", a.len(), b.len()))
            }
        }
        // character: same length, at most one position, printable replacement (any byte for bytes)
        (4, SpyVal::Str(a), SpyVal::Str(b)) => {
            let ac: Vec<char> = a.chars().collect();
            let bc: Vec<char> = b.chars().collect();
            if ac.len() != bc.len() {
                return Err(format!("same-length: {} -> {}", ac.len(), bc.len()));
            }
            let diffs: Vec<usize> = (0..ac.len()).filter(|&i| ac[i] != bc[i]).collect();
            if diffs.len() > 1 {
                return Err(format!("one-position: {} positions changed", diffs.len()));
            }
            if let Some(&i) = diffs.first() {
                let c = bc[i];
                if !(c.is_ascii() && (0x20..0x7f).contains(&(c as u32))) {
                    return Err(format!("printable: {:?}", c));
                }
            }
            Ok(())
        }
        (4, SpyVal::Bytes(a), SpyVal::Bytes(b)) => {
            if a.len() != b.len() {
                return Err(format!("same-length: {} -> {}", a.len(), b.len()));
            }
            let diffs = (0..a.len()).filter(|&i| a[i] != b[i]).count();
            if diffs > 1 {
                return Err(format!("one-position: {} positions changed", diffs));
            }
            Ok(())
        }
        // memo index
        (5, SpyVal::Memo(a), SpyVal::Memo(b)) => {
            if unsafe_mode {
                if *b < 1000 {
                    Ok(())
                } else {
                    Err(format!("below-1000: {}", b))
                }
            } else if a.abs_diff(*b) <= 1 {
                Ok(())
            } else {
                Err(format!("at-most-one: {} -> {}", a, b))
            }
        }
        (k, i, o) => Err(format!("not-applicable: {} mutated {:?} into {:?}", crate::exec::mut_name(k), i, o)),
    }
}

/// value-pushing opcodes as the type-confusion documentation lists them: name -> pushed kind group
pub fn value_group(name: &str) -> Option<&'static str> {
    Some(match name {
        "INT" | "BININT" | "BININT1" | "BININT2" | "LONG" | "LONG1" | "LONG4" => "int",
        "FLOAT" | "BINFLOAT" => "float",
        "STRING" | "UNICODE" | "SHORT_BINUNICODE" | "BINUNICODE" | "BINUNICODE8" => "str",
        "BINBYTES" | "SHORT_BINBYTES" | "BINBYTES8" | "BINSTRING" | "SHORT_BINSTRING" => "bytes",
        "EMPTY_LIST" | "LIST" => "list",
        "EMPTY_TUPLE" | "TUPLE" | "TUPLE1" | "TUPLE2" | "TUPLE3" => "tuple",
        "EMPTY_DICT" | "DICT" => "dict",
        "NONE" => "none",
        "NEWTRUE" | "NEWFALSE" => "bool",
        _ => return None,
    })
}

pub fn contract_post(kind: u8, unsafe_cfg: bool, r: &SpyRec) -> Result<(), String> {
    let SpyRec::Post { fired, old_tail, new_tail, prefix_changed, delta_first, .. } = r else { return Ok(()) };
    if *prefix_changed {
        return Err("untouched-prefix: bytes before the just-emitted opcode were modified".into());
    }
    if kind != 6 {
        return Err(format!("no-post-process: {} rewrote output", crate::exec::mut_name(kind)));
    }
    if !unsafe_cfg {
        return Err("safe-mode-noop: type confusion acted in safe mode".into());
    }
    if !*fired && old_tail != new_tail {
        return Err("reported-false-but-modified".into());
    }
    // old tail: exactly what the emission wrote; must start with a value-pushing opcode
    // the "just-emitted opcode" is the one the emission wrote (the snapshot's delta); with the same
    // mutator registered twice the tail may already hold an earlier replacement
    let old_first = delta_first.or(old_tail.first().copied()).and_then(lexer::lookup);
    let old_group = old_first.and_then(|o| value_group(o.name));
    let Some(old_group) = old_group else {
        return Err(format!(
            "only-value-pushing: rewrote an emission starting with {}",
            old_first.map(|o| o.name).unwrap_or("nothing")
        ));
    };
    // new tail: exactly one complete opcode, value-pushing, of another kind
    let mut probe = new_tail.clone();
    probe.push(b'.');
    let (ops, err) = lexer::lex(&probe);
    if err.is_some() || ops.len() != 2 || ops[0].end != new_tail.len() {
        return Err(format!("one-complete-opcode: replacement {} does not decode as exactly one opcode", crate::desc::hex(new_tail)));
    }
    match value_group(ops[0].name()) {
        None => Err(format!("value-pushing-replacement: {}", ops[0].name())),
        Some(g) if g == old_group => Err(format!("different-kind: {} replaced by {}", old_group, g)),
        Some(_) => Ok(()),
    }
}

pub struct C16Stats {
    pub fired_value: usize,
    pub fired_post: usize,
}

pub fn c16(rec: &CallRecord, stats: &mut C16Stats) -> Vec<Violation> {
    let mut v = vec![];
    for r in &rec.spy {
        match r {
            SpyRec::Value { kind, input, out: Some(out), .. } => {
                stats.fired_value += 1;
                if let Err(clause) = contract_value(*kind, rec.config.unsafe_mutations, input, out) {
                    let c = clause.split(':').next().unwrap_or("").to_string();
                    v.push(Violation::new(
                        "C16",
                        format!("contract({},{},{})", crate::exec::mut_name(*kind), input.kind(), c),
                        clause,
                    ));
                    return v;
                }
            }
            SpyRec::Post { kind, .. } => {
                stats.fired_post += 1;
                if let Err(clause) = contract_post(*kind, rec.config.unsafe_mutations, r) {
                    let c = clause.split(':').next().unwrap_or("").to_string();
                    v.push(Violation::new("C16", format!("contract({},post,{})", crate::exec::mut_name(*kind), c), clause));
                    return v;
                }
            }
            _ => {}
        }
    }
    v
}

// ------------------------------------------------------------------------------------------
// C09 — totality (outcome only; process death and hangs are handled by the supervisor)

pub fn c09(rec: &CallRecord) -> Vec<Violation> {
    match &rec.outcome {
        Outcome::Ok(b) if !b.is_empty() => vec![],
        Outcome::Ok(_) => vec![Violation::new("C09", "empty-output", "generation returned Ok with no bytes")],
        Outcome::Err(e) => vec![Violation::new("C09", format!("error({})", prefix(e)), e.clone())],
        Outcome::Panic(p) => vec![Violation::new("C09", format!("panic({})", prefix(p)), p.clone())],
    }
}

pub fn prefix(s: &str) -> String {
    // stable prefix of a message: letters only, numbers replaced, first 40 chars
    let mut out = String::new();
    for c in s.chars() {
        if out.len() >= 40 {
            break;
        }
        if c.is_ascii_digit() {
            if !out.ends_with('#') {
                out.push('#');
            }
        } else if c == '\n' {
            break;
        } else {
            out.push(c);
        }
    }
    out
}

pub fn scenario_is_safe(sc: &Scenario) -> bool {
    !sc.config.unsafe_mutations
}

pub fn arg_is_data(op: &Op) -> bool {
    matches!(op.arg, Arg::Data { .. })
}
