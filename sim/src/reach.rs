//! C12 — reachability of the whole opcode vocabulary, decided as sometimes-assertions (reach
//! probes) over a fixed, large seed range with default settings (DESIGN §5 C12).

use crate::desc::{self, Config, Entropy, Scenario};
use crate::engine::{Stats, Tier};
use crate::exec::{self, Trace};
use crate::lexer;
use crate::optable::OPCODES;
use crate::props::Violation;
use serde_json::{json, Value};
use std::collections::BTreeMap;

pub const NEED: u64 = 3;
pub const RECONF: u64 = 1 << 62;
/// seeds with bit 61 set: the generator first produced a pickle under another protocol and was then
/// switched through the pub field `state.version`
pub const RESWITCH: u64 = 1 << 61;
/// seeds with bit 60 set: the generator first produced one large pickle (6 000-7 000 opcodes, several
/// hundred memo entries) and was then set back to the default range
pub const AFTERBIG: u64 = 1 << 60;

fn is_ext(name: &str) -> bool {
    matches!(name, "EXT1" | "EXT2" | "EXT4")
}
fn is_buf(name: &str) -> bool {
    matches!(name, "NEXT_BUFFER" | "READONLY_BUFFER")
}

/// opcodes required for protocol `p` in a batch (`flags` = EXT/buffer enabled)
pub fn required(p: u8, flags: bool) -> Vec<&'static str> {
    OPCODES
        .iter()
        .filter(|o| o.proto <= p)
        .filter(|o| if flags { is_ext(o.name) || is_buf(o.name) } else { !(is_ext(o.name) || is_buf(o.name)) })
        .map(|o| o.name)
        .collect()
}

pub struct Batch {
    pub protocol: u8,
    pub flags: bool,
    pub counts: BTreeMap<&'static str, u64>,
    pub first_seed: BTreeMap<&'static str, u64>,
    pub framed: u64,
    pub unframed: u64,
    pub first_framed: Option<u64>,
    pub first_unframed: Option<u64>,
    pub seeds_tried: u64,
}

impl Batch {
    pub fn complete(&self) -> bool {
        let all = required(self.protocol, self.flags).iter().all(|n| self.counts.get(n).copied().unwrap_or(0) >= NEED);
        let frames = self.flags || self.protocol < 4 || (self.framed >= NEED && self.unframed >= NEED);
        all && frames
    }
    pub fn missing(&self) -> Vec<String> {
        let mut v: Vec<String> = required(self.protocol, self.flags)
            .iter()
            .filter(|n| self.counts.get(*n).copied().unwrap_or(0) == 0)
            .map(|n| n.to_string())
            .collect();
        if !self.flags && self.protocol >= 4 {
            if self.framed == 0 {
                v.push("<framed pickle>".into());
            }
            if self.unframed == 0 {
                v.push("<unframed pickle>".into());
            }
        }
        v
    }
}

pub fn scenario_for(p: u8, flags: bool, seed: u64) -> Scenario {
    let mut c = Config::default_for(p);
    c.allow_ext = flags;
    c.allow_buffer = flags;
    Scenario::solo(c, Entropy::Rand(seed))
}

/// the opt-in opcodes switched on *after* the generator has already produced a pickle without them
pub fn scenario_reconfigured(p: u8, seed: u64) -> Scenario {
    let c = Config::default_for(p);
    let mut sc = Scenario::solo(c, Entropy::Rand(seed ^ 0x5555));
    sc.history.push(crate::desc::HOp::SetFlags(true, true));
    sc.history.push(crate::desc::HOp::Gen(Entropy::Rand(seed)));
    sc
}

/// a first call under another protocol (lower and higher ones in turn), then the protocol is switched
pub fn scenario_reswitched(p: u8, seed: u64) -> Scenario {
    let other = [(p + 1) % 6, (p + 5) % 6, (p + 3) % 6][(seed % 3) as usize];
    let c = Config::default_for(other);
    let mut sc = Scenario::solo(c, Entropy::Rand(seed ^ 0x3333));
    sc.history.push(crate::desc::HOp::SetProtocol(p));
    sc.history.push(crate::desc::HOp::Gen(Entropy::Rand(seed)));
    sc
}

/// one large pickle first (range set through the pub fields), then the default range again
pub fn scenario_after_big(p: u8, seed: u64) -> Scenario {
    let c = Config::default_for(p);
    let mut sc = Scenario::solo(c, Entropy::Rand(seed ^ 0x7777));
    sc.history.insert(0, crate::desc::HOp::SetRange(6_000, 7_000));
    sc.history.push(crate::desc::HOp::SetRange(60, 300));
    // the large call is amortised over 64 default-sized calls on the same generator
    for j in 0..64u64 {
        sc.history.push(crate::desc::HOp::Gen(Entropy::Rand(crate::desc::mix64(seed ^ (j << 40)))));
    }
    sc
}

/// opcode names (deduplicated) of one default-settings run
fn names_of(p: u8, flags: bool, seed: u64) -> Vec<(Vec<&'static str>, bool)> {
    // seeds with bit 62 set mark the "reconfigured generator" batch, bit 61 the "switched protocol"
    // one, bit 60 the "after one large pickle" one (every call after the large one is counted)
    let reconf = seed & RECONF != 0;
    let after_big = seed & AFTERBIG != 0;
    let sc = if after_big {
        scenario_after_big(p, seed & !AFTERBIG)
    } else if seed & RESWITCH != 0 {
        scenario_reswitched(p, seed & !RESWITCH)
    } else if reconf {
        scenario_reconfigured(p, seed & !RECONF)
    } else {
        scenario_for(p, flags, seed)
    };
    let recs = exec::run_scenario(&sc, Trace::Off, false);
    let counted: Vec<&exec::CallRecord> = if after_big { recs.iter().skip(1).collect() } else { recs.last().into_iter().collect() };
    let mut out = vec![];
    for rec in counted {
        let Some(o) = rec.outcome.bytes() else { continue };
        let (ops, err) = lexer::lex(o);
        if err.is_some() {
            continue;
        }
        let mut seen = [false; 256];
        let mut names = vec![];
        let mut framed = false;
        for o in &ops {
            if !seen[o.code() as usize] {
                seen[o.code() as usize] = true;
                names.push(o.name());
            }
            if o.name() == "FRAME" {
                framed = true;
            }
        }
        out.push((names, framed));
    }
    out
}

pub fn run_batch(p: u8, flags: bool, seed_base: u64, max_seeds: u64, stats: &mut Stats) -> Batch {
    let mut b = Batch {
        protocol: p,
        flags,
        counts: BTreeMap::new(),
        first_seed: BTreeMap::new(),
        framed: 0,
        unframed: 0,
        first_framed: None,
        first_unframed: None,
        seeds_tried: 0,
    };
    let nt = crate::engine::n_threads() as u64;
    // a seed of the after-big batch stands for 65 calls
    let chunk: u64 = if seed_base & AFTERBIG != 0 { 8 * nt } else { 512 * nt };
    let mut start = 0u64;
    while start < max_seeds && !b.complete() {
        let end = (start + chunk).min(max_seeds);
        // evaluate [start, end) in parallel; merge in seed order so the result does not depend on
        // the number of threads
        let results: Vec<Vec<(u64, Vec<(Vec<&'static str>, bool)>)>> = std::thread::scope(|s| {
            let mut hs = vec![];
            for t in 0..nt {
                hs.push(s.spawn(move || {
                    let mut v = vec![];
                    let mut i = start + t;
                    while i < end {
                        v.push((i, names_of(p, flags, seed_base.wrapping_add(i))));
                        i += nt;
                    }
                    v
                }));
            }
            hs.into_iter().map(|h| h.join().unwrap()).collect()
        });
        let mut flat: Vec<(u64, Vec<(Vec<&'static str>, bool)>)> = results.into_iter().flatten().collect();
        flat.sort_by_key(|x| x.0);
        for (i, r) in flat {
            b.seeds_tried += 1;
            crate::engine::tick();
            stats.evaluations += 1;
            let seed = seed_base.wrapping_add(i);
            if r.is_empty() {
                stats.bump("reach.run_without_decodable_output");
                continue;
            }
            for (names, framed) in r {
                for n in names {
                    *b.counts.entry(n).or_insert(0) += 1;
                    b.first_seed.entry(n).or_insert(seed);
                }
                if p >= 4 {
                    if framed {
                        b.framed += 1;
                        b.first_framed.get_or_insert(seed);
                    } else {
                        b.unframed += 1;
                        b.first_unframed.get_or_insert(seed);
                    }
                }
            }
        }
        start = end;
    }
    b
}

pub struct ReachOutcome {
    pub stats: Stats,
    pub violations: Vec<(Value, Violation)>,
    pub pairs_seen: usize,
    pub detail: Value,
}

pub fn sweep(tier: Tier, verif_seed: u64) -> ReachOutcome {
    let max_seeds: u64 = std::env::var("PFSIM_RUNS")
        .ok()
        .and_then(|s| s.parse().ok())
        .unwrap_or(match tier {
            Tier::Quick => 200_000,
            Tier::Thorough => 2_000_000,
        });
    let mut stats = Stats::default();
    let mut violations = vec![];
    let mut pairs = std::collections::HashSet::new();
    let mut detail = vec![];
    // window 1: seeds 0..S-1 (fixed); window 2 (only if needed and VERIF_SEED is not the default):
    // S more seeds starting at a VERIF_SEED-derived offset — a union can only help an existential
    for flags in [false, true] {
        for p in 0..6u8 {
            if flags && required(p, true).is_empty() {
                continue;
            }
            let mut b = run_batch(p, flags, 0, max_seeds, &mut stats);
            if !b.complete() && verif_seed != crate::engine::DEFAULT_SEED {
                let base = desc::derive_seed(verif_seed, "C12.window", p as u64) >> 16;
                let b2 = run_batch(p, flags, base, max_seeds, &mut stats);
                for (k, v) in b2.counts {
                    *b.counts.entry(k).or_insert(0) += v;
                }
                for (k, v) in b2.first_seed {
                    b.first_seed.entry(k).or_insert(v);
                }
                b.framed += b2.framed;
                b.unframed += b2.unframed;
                b.seeds_tried += b2.seeds_tried;
            }
            for (n, c) in &b.counts {
                if *c > 0 {
                    pairs.insert((p, flags, *n));
                }
            }
            if p >= 4 && !flags {
                if b.framed > 0 {
                    pairs.insert((p, flags, "<framed>"));
                }
                if b.unframed > 0 {
                    pairs.insert((p, flags, "<unframed>"));
                }
            }
            // rarest opcodes of this batch
            let mut rare: Vec<(&str, u64, u64)> = required(p, flags)
                .iter()
                .map(|n| (*n, b.counts.get(n).copied().unwrap_or(0), b.first_seed.get(n).copied().unwrap_or(u64::MAX)))
                .collect();
            rare.sort_by_key(|x| x.1);
            rare.truncate(4);
            detail.push(json!({
                "protocol": p, "ext_and_buffer_enabled": flags, "seeds_tried": b.seeds_tried, "complete": b.complete(),
                "required_opcodes": required(p, flags).len(),
                "framed": b.framed, "unframed": b.unframed,
                "rarest": rare.iter().map(|(n, c, s)| json!({"opcode": n, "pickles_containing_it": c, "first_seed": s})).collect::<Vec<_>>(),
            }));
            if stats.samples.len() < 3 {
                if let Some((n, _, s)) = rare.first() {
                    if *s != u64::MAX {
                        stats.samples.push(json!({"witness": {"protocol": p, "opcode": n, "seed": s, "config": "defaults", "flags": flags}}));
                    }
                }
            }
            for m in b.missing() {
                let class = if m.starts_with('<') {
                    format!("frame-variant-unreached({},{})", p, if m.contains("unframed") { "unframed" } else { "framed" })
                } else {
                    format!("unreached({},{})", p, m)
                };
                violations.push((
                    json!({"protocol": p, "flags": flags, "target": m, "seeds": b.seeds_tried}),
                    Violation::new("C12", class, format!("{} never occurs in protocol-{} output for {} seeds with default settings (flags {})", m, p, b.seeds_tried, flags)),
                ));
            }
        }
    }
    // third batch: the flags are switched on through the pub fields on a generator that was already
    // used with them off (a per-generator cache of the vocabulary must not survive reconfiguration)
    for p in 2..6u8 {
        let b = run_batch(p, true, RECONF, max_seeds, &mut stats);
        for (n, c) in &b.counts {
            if *c > 0 {
                pairs.insert((p, true, *n));
            }
        }
        detail.push(json!({"protocol": p, "ext_and_buffer_enabled": "switched on after a first call", "seeds_tried": b.seeds_tried, "complete": b.complete()}));
        for m in b.missing() {
            violations.push((
                json!({"protocol": p, "flags": true, "reconfigured": true, "target": m, "seeds": b.seeds_tried}),
                Violation::new("C12", format!("unreached({},{})", p, m), format!("{} never occurs in protocol-{} output for {} seeds once EXT/buffer opcodes are enabled on an already used generator", m, p, b.seeds_tried)),
            ));
        }
    }
    // fourth batch: the protocol of a used generator is switched through `state.version` (a
    // per-generator copy of the vocabulary must follow the switch)
    for p in 0..6u8 {
        let b = run_batch(p, false, RESWITCH, max_seeds, &mut stats);
        for (n, c) in &b.counts {
            if *c > 0 {
                pairs.insert((p, false, *n));
            }
        }
        detail.push(json!({"protocol": p, "ext_and_buffer_enabled": false, "generator": "used under another protocol, then switched", "seeds_tried": b.seeds_tried, "complete": b.complete()}));
        for m in b.missing() {
            let class = if m.starts_with('<') {
                format!("frame-variant-unreached({},{})", p, if m.contains("unframed") { "unframed" } else { "framed" })
            } else {
                format!("unreached({},{})", p, m)
            };
            violations.push((
                json!({"protocol": p, "flags": false, "reswitched": true, "target": m, "seeds": b.seeds_tried}),
                Violation::new("C12", class, format!("{} never occurs in protocol-{} output for {} seeds on a generator that was switched to this protocol after a first call under another one", m, p, b.seeds_tried)),
            ));
        }
    }
    // fifth batch: generators that have served one large pickle before (lifetime maxima, caches and
    // thresholds that survive reset() must not remove anything from the vocabulary)
    for p in 0..6u8 {
        // one seed of this batch stands for 65 calls: the same call budget as the other batches
        let b = run_batch(p, false, AFTERBIG, (max_seeds / 64).max(64), &mut stats);
        detail.push(json!({"protocol": p, "ext_and_buffer_enabled": false, "generator": "served one 6000-7000 opcode pickle first (several hundred memo entries)", "seeds_tried": b.seeds_tried, "complete": b.complete()}));
        for m in b.missing() {
            let class = if m.starts_with('<') {
                format!("frame-variant-unreached({},{})", p, if m.contains("unframed") { "unframed" } else { "framed" })
            } else {
                format!("unreached({},{})", p, m)
            };
            violations.push((
                json!({"protocol": p, "flags": false, "after_big": true, "target": m, "seeds": b.seeds_tried}),
                Violation::new("C12", class, format!("{} never occurs in protocol-{} output for {} seeds on a generator that served one large pickle first", m, p, b.seeds_tried)),
            ));
        }
    }
    ReachOutcome { stats, violations, pairs_seen: pairs.len(), detail: json!(detail) }
}

/// replay: re-run the seed window and look for the target
pub fn replay(body: &Value) -> Vec<Violation> {
    let p = body["protocol"].as_u64().unwrap_or(0) as u8;
    let flags = body["flags"].as_bool().unwrap_or(false);
    let target = body["target"].as_str().unwrap_or("").to_string();
    let seeds = body["seeds"].as_u64().unwrap_or(0);
    let mut st = Stats::default();
    let base = if body["after_big"].as_bool() == Some(true) {
        AFTERBIG
    } else if body["reswitched"].as_bool() == Some(true) {
        RESWITCH
    } else if body["reconfigured"].as_bool() == Some(true) {
        RECONF
    } else {
        0
    };
    let b = run_batch(p, flags, base, seeds, &mut st);
    b.missing()
        .into_iter()
        .filter(|m| *m == target)
        .map(|m| {
            let class = if m.starts_with('<') {
                format!("frame-variant-unreached({},{})", p, if m.contains("unframed") { "unframed" } else { "framed" })
            } else {
                format!("unreached({},{})", p, m)
            };
            Violation::new("C12", class, format!("{} still unreached", m))
        })
        .collect()
}
