//! Clock seam (C07): when the process runs under the LD_PRELOAD shim `sim/c/clockshim.c` the
//! simulator can make `clock_gettime` — and therefore `Instant::now` / `SystemTime::now` — jump
//! forward at chosen emission steps. Without the shim every function here is a no-op.

use std::sync::OnceLock;

struct Api {
    advance: extern "C" fn(i64),
    reads: extern "C" fn() -> u64,
    real_ns: extern "C" fn() -> i64,
}

fn api() -> Option<&'static Api> {
    static API: OnceLock<Option<Api>> = OnceLock::new();
    API.get_or_init(|| unsafe {
        let sym = |name: &[u8]| libc::dlsym(libc::RTLD_DEFAULT, name.as_ptr() as *const libc::c_char);
        let a = sym(b"pfsim_clock_advance\0");
        let r = sym(b"pfsim_clock_reads\0");
        let m = sym(b"pfsim_real_monotonic_ns\0");
        if a.is_null() || r.is_null() || m.is_null() {
            None
        } else {
            Some(Api {
                advance: std::mem::transmute::<*mut libc::c_void, extern "C" fn(i64)>(a),
                reads: std::mem::transmute::<*mut libc::c_void, extern "C" fn() -> u64>(r),
                real_ns: std::mem::transmute::<*mut libc::c_void, extern "C" fn() -> i64>(m),
            })
        }
    })
    .as_ref()
}

pub fn controlled() -> bool {
    api().is_some()
}

/// make every clock of the process jump forward by `ns`
pub fn advance(ns: i64) {
    if let Some(a) = api() {
        (a.advance)(ns);
    }
}

/// number of clock reads the shim has served (harness + code under test)
pub fn reads() -> u64 {
    api().map(|a| (a.reads)()).unwrap_or(0)
}

/// seconds on the real monotonic clock (unaffected by injected jumps)
pub fn real_seconds() -> f64 {
    match api() {
        Some(a) => (a.real_ns)() as f64 / 1e9,
        None => {
            use std::time::{SystemTime, UNIX_EPOCH};
            SystemTime::now().duration_since(UNIX_EPOCH).map(|d| d.as_secs_f64()).unwrap_or(0.0)
        }
    }
}

pub fn shim_path() -> String {
    format!("{}/target/clockshim.so", crate::engine::verif_root())
}

/// build the shim if it is missing (clang is part of the image); false if it cannot be built
pub fn ensure_shim() -> bool {
    let out = shim_path();
    if std::path::Path::new(&out).exists() {
        return true;
    }
    let src = format!("{}/sim/c/clockshim.c", crate::engine::verif_root());
    let _ = std::fs::create_dir_all(format!("{}/target", crate::engine::verif_root()));
    for cc in ["clang", "cc", "gcc"] {
        if let Ok(st) = std::process::Command::new(cc).args(["-O2", "-shared", "-fPIC", "-o", &out, &src, "-ldl"]).status() {
            if st.success() {
                return true;
            }
        }
    }
    false
}

/// re-execute the current command line under the shim (once); returns the child's exit code
pub fn reexec_under_shim() -> Option<i32> {
    if controlled() || std::env::var("PFSIM_CLOCK").is_ok() || !ensure_shim() {
        return None;
    }
    let exe = std::env::current_exe().ok()?;
    let args: Vec<String> = std::env::args().skip(1).collect();
    let st = std::process::Command::new(exe).args(args).env("LD_PRELOAD", shim_path()).env("PFSIM_CLOCK", "1").status().ok()?;
    Some(st.code().unwrap_or(2))
}
