//! Sweep engine: seeded search over scenarios, sharded over worker threads, order-independent
//! reduction, known-findings filter, minimisation, replay files and evidence.

use crate::desc::{self, Config, Entropy, HOp, Scenario};
use crate::exec::{self, CallRecord, Trace};
use crate::mix::{self, Profile};
use crate::props::{self, Violation};
use serde_json::{json, Value};
use std::collections::{BTreeMap, HashSet};
use std::sync::atomic::{AtomicU64, Ordering};
use std::time::Instant;

pub const DEFAULT_SEED: u64 = 20_260_917;

/// progress counter for the stall watchdog of in-process checks (a generation call that never
/// returns would otherwise hang the check forever; totality itself is C09's property and is decided
/// in supervised child processes)
pub static PROGRESS: AtomicU64 = AtomicU64::new(0);

pub fn tick() {
    PROGRESS.fetch_add(1, Ordering::Relaxed);
}

pub fn start_stall_watchdog() {
    let limit: u64 = std::env::var("PFSIM_STALL_S").ok().and_then(|s| s.parse().ok()).unwrap_or(420);
    std::thread::spawn(move || {
        let mut last = PROGRESS.load(Ordering::Relaxed);
        let mut idle = 0u64;
        loop {
            std::thread::sleep(std::time::Duration::from_secs(5));
            let now = PROGRESS.load(Ordering::Relaxed);
            if now == last {
                idle += 5;
                if idle >= limit {
                    eprintln!("HARNESS ERROR: no run finished for {} s - a generation call appears to hang or crawl (totality is property C09; run ./check C09 quick)", idle);
                    std::process::exit(2);
                }
            } else {
                idle = 0;
                last = now;
            }
        }
    });
}

pub fn verif_seed() -> u64 {
    std::env::var("VERIF_SEED")
        .ok()
        .and_then(|s| s.trim().parse::<u64>().ok())
        .unwrap_or(DEFAULT_SEED)
}

pub fn verif_root() -> String {
    std::env::var("PFSIM_ROOT").unwrap_or_else(|_| "/verif".to_string())
}

#[derive(Clone, Copy, Debug, PartialEq, Eq)]
pub enum Tier {
    Quick,
    Thorough,
}

impl Tier {
    pub fn name(self) -> &'static str {
        match self {
            Tier::Quick => "quick",
            Tier::Thorough => "thorough",
        }
    }
}

#[derive(Default)]
pub struct Stats {
    pub evaluations: u64,
    pub calls: u64,
    pub nontrivial: HashSet<u64>,
    pub counters: BTreeMap<String, u64>,
    pub samples: Vec<Value>,
    pub steps: u64,
    pub entropy_bytes: u64,
    /// (run index, output, safe-mode) kept for the CPython cross-check
    pub py_samples: Vec<(u64, Vec<u8>, bool)>,
    /// first example of each known-finding class met
    pub known_examples: Vec<Found>,
}

impl Stats {
    pub fn bump(&mut self, k: &str) {
        *self.counters.entry(k.to_string()).or_insert(0) += 1;
    }
    pub fn add(&mut self, k: &str, n: u64) {
        *self.counters.entry(k.to_string()).or_insert(0) += n;
    }
    pub fn merge(&mut self, o: Stats) {
        self.evaluations += o.evaluations;
        self.calls += o.calls;
        self.nontrivial.extend(o.nontrivial);
        for (k, v) in o.counters {
            *self.counters.entry(k).or_insert(0) += v;
        }
        self.samples.extend(o.samples);
        self.steps += o.steps;
        self.entropy_bytes += o.entropy_bytes;
        self.py_samples.extend(o.py_samples);
        self.known_examples.extend(o.known_examples);
    }
}

#[derive(Clone, Debug)]
pub struct Found {
    pub index: u64,
    pub scenario: Scenario,
    pub violation: Violation,
}

pub struct SoloSpec {
    pub prop: &'static str,
    pub profile: Profile,
    /// probability that a run is a multi-call history instead of a single call
    pub hist_p: f64,
    pub trace: Trace,
    pub spy: bool,
    pub runs_quick: u64,
    pub runs_thorough: u64,
    pub rule: &'static str,
    /// enumerate all scripts of <= 2 bytes in the thorough tier
    pub enumerate_short: bool,
}

pub fn solo_spec(prop: &str) -> Option<SoloSpec> {
    let d = Profile::default();
    Some(match prop {
        "C01" => SoloSpec {
            prop: "C01",
            profile: Profile { flag_p: 0.5, ..d },
            hist_p: 0.08,
            trace: Trace::Light,
            spy: false,
            runs_quick: 160_000,
            runs_thorough: 6_000_000,
            rule: "one seeded scenario per run (protocol, range class, mutator subset/order, rate, flags, PRNG seed or fuzzer script with cut/f64/stuck faults); non-trivial = output has >= 20 opcodes and >= 1 MARK-consuming opcode; distinct = distinct output digests among those",
            enumerate_short: true,
        },
        "C02" => SoloSpec {
            prop: "C02",
            profile: Profile { long_bias: 0.05, memo_mutators: true, rate_one: 0.45, mutators_p: 0.85, ..d },
            hist_p: 0.08,
            trace: Trace::Light,
            spy: false,
            runs_quick: 60_000,
            runs_thorough: 1_500_000,
            rule: "solo mix biased to 1000-6000 opcode ranges and offbyone/memoindex at rate 1; non-trivial = >= 1 GET-family opcode executed with >= 2 memo keys defined; distinct output digests",
            enumerate_short: false,
        },
        "C03" => SoloSpec {
            prop: "C03",
            profile: d,
            hist_p: 0.08,
            trace: Trace::Light,
            spy: false,
            runs_quick: 160_000,
            runs_thorough: 6_000_000,
            rule: "solo mix; non-trivial = >= 1 of APPEND/APPENDS/SETITEM/SETITEMS/ADDITEMS/DICT/STACK_GLOBAL/REDUCE/NEWOBJ/NEWOBJ_EX/BUILD/OBJ/DUP executed; distinct output digests",
            enumerate_short: true,
        },
        "C04" => SoloSpec {
            prop: "C04",
            profile: Profile { allow_unsafe: true, rate_one: 0.4, flag_p: 0.5, ..d },
            hist_p: 0.0,
            trace: Trace::Light,
            spy: true,
            runs_quick: 160_000,
            runs_thorough: 6_000_000,
            rule: "solo mix incl. unsafe mutations; non-trivial = >= 1 mutation fired (Spy) or >= 1 text-argument opcode; distinct output digests",
            enumerate_short: false,
        },
        "C05" => SoloSpec {
            prop: "C05",
            profile: d,
            hist_p: 0.2,
            trace: Trace::Light,
            spy: false,
            runs_quick: 140_000,
            runs_thorough: 5_000_000,
            rule: "solo mix (80%) and multi-call histories (20%); every generation call is judged; non-trivial = >= 20 opcodes, or a 2nd+ call of a history; distinct output digests",
            enumerate_short: false,
        },
        "C06" => SoloSpec {
            prop: "C06",
            profile: Profile { allow_unsafe: true, rate_one: 0.4, protocols: Some(vec![0, 1, 2, 3, 4, 4, 4, 4, 5, 5, 5, 5]), ..d },
            hist_p: 0.2,
            trace: Trace::Light,
            spy: true,
            runs_quick: 160_000,
            runs_thorough: 6_000_000,
            rule: "solo mix and histories incl. unsafe rewrites, protocols 4/5 over-weighted; non-trivial = protocol >= 4; distinct output digests",
            enumerate_short: false,
        },
        "C08" => SoloSpec {
            prop: "C08",
            profile: Profile { allow_unsafe: true, ..d.clone() },
            hist_p: 1.0,
            trace: Trace::Light,
            spy: false,
            runs_quick: 60_000,
            runs_thorough: 2_500_000,
            rule: "one generator, a seeded history of 1..8 operations (generate / generate_from_arbitrary(x) incl. repeated x / reset / range and rate changes through the pub fields); every generation call is compared byte-for-byte with a fresh generator given only that call; non-trivial = 2nd or later call; distinct (output digest, call position)",
            enumerate_short: false,
        },
        "C14" => SoloSpec {
            prop: "C14",
            profile: Profile { allow_unsafe: true, ..d.clone() },
            hist_p: 0.6,
            trace: Trace::Off,
            spy: false,
            runs_quick: 60_000,
            runs_thorough: 2_500_000,
            rule: "solo runs (40%) and histories of 1..8 operations (60%); each is executed twice on the measuring thread and only the second execution is measured: live heap bytes before Generator::new == after drop; then the history is repeated 3x on one generator with reset() and live bytes after repetition 2 and 3 must be equal; non-trivial = a leak-capable structure exists (output contains DUP or a GET-family opcode) or the history has >= 2 operations; distinct scenario digests",
            enumerate_short: false,
        },
        "C09" => SoloSpec {
            prop: "C09",
            profile: Profile { allow_unsafe: true, wild_rates: true, long_bias: 0.02, rate_one: 0.3, flag_p: 0.5, ..d.clone() },
            hist_p: 0.15,
            trace: Trace::Light,
            spy: false,
            runs_quick: 120_000,
            runs_thorough: 3_000_000,
            rule: "solo mix and histories incl. unsafe mutators, out-of-range/NaN rates through the pub field, degenerate ranges, long runs (thorough: up to 50000 opcodes), executed in child worker processes on 2 MiB stacks; plus ALL fuzzer scripts of length <= 1 (quick) / <= 2 (thorough) x 6 protocols x 3 configuration passes; non-trivial = the script was exhausted, or the range is degenerate, or the rate is outside [0,1], or unsafe mode; distinct output digests",
            enumerate_short: true,
        },
        "C10" => SoloSpec {
            prop: "C10",
            profile: Profile { allow_unsafe: true, flag_p: 0.35, rate_one: 0.4, ..d },
            hist_p: 0.25,
            trace: Trace::Light,
            spy: false,
            runs_quick: 160_000,
            runs_thorough: 6_000_000,
            rule: "solo mix incl. unsafe, four flag combinations; non-trivial = at least one flag off and the protocol's table has the guarded opcodes (EXT: P>=2, buffer: P=5); distinct output digests",
            enumerate_short: false,
        },
        "C11" => SoloSpec {
            prop: "C11",
            profile: Profile { allow_unsafe: true, ..d },
            hist_p: 0.2,
            trace: Trace::Light,
            spy: false,
            runs_quick: 140_000,
            runs_thorough: 5_000_000,
            rule: "solo mix and histories over all range classes (default, tiny, equal, inverted, zero, long); non-trivial = range differs from the default 60..300; distinct output digests",
            enumerate_short: false,
        },
        "C15" => SoloSpec {
            prop: "C15",
            profile: Profile { allow_unsafe: true, rate_one: 0.5, rate_zero: 0.5, mutators_p: 1.0, bytes_p: 0.65, ..d },
            hist_p: 0.0,
            trace: Trace::Light,
            spy: true,
            runs_quick: 80_000,
            runs_thorough: 3_000_000,
            rule: "in situ: solo mix with Spy-wrapped real mutators, rate in {0,1}; comp: every mutator method called directly on real sources over value grid x fault points; non-trivial = a gate was evaluated on a bytes-mode source (hostile or exhausted f64) ; distinct (output digest | comp case) ",
            enumerate_short: false,
        },
        "C16" => SoloSpec {
            prop: "C16",
            profile: Profile { allow_unsafe: true, rate_one: 0.6, rate_zero: 0.0, mutators_p: 1.0, ..d },
            hist_p: 0.0,
            trace: Trace::Light,
            spy: true,
            runs_quick: 80_000,
            runs_thorough: 3_000_000,
            rule: "in situ: every Spy record of the solo mix is checked against the mutator's contract; comp: value grid x entropy fault points; non-trivial = >= 1 mutation fired; distinct (output digest | comp case)",
            enumerate_short: false,
        },
        "C17" => SoloSpec {
            prop: "C17",
            profile: d,
            hist_p: 0.08,
            trace: Trace::Full,
            spy: false,
            runs_quick: 90_000,
            runs_thorough: 3_000_000,
            rule: "solo mix with full per-step snapshots (stack kinds + memo keys before every opcode) compared with R3 under R4; non-trivial = >= 20 steps compared; distinct output digests",
            enumerate_short: true,
        },
        _ => return None,
    })
}

/// the spec with its tier-dependent adjustments (the single place where they are made)
pub fn spec_for(prop: &str, tier: Tier) -> Option<SoloSpec> {
    let mut spec = solo_spec(prop)?;
    if tier == Tier::Thorough && prop == "C09" {
        // thorough: a small share of 20000..50000-opcode runs (quadratic cost)
        spec.profile.huge_bias = 0.0003;
    }
    Some(spec)
}

pub fn draw_for(spec: &SoloSpec, verif_seed: u64, tier: Tier, index: u64) -> Scenario {
    let _ = tier;
    let mut rng = mix::rng_from(desc::derive_seed(verif_seed, spec.prop, index));
    use rand::Rng;
    if spec.hist_p > 0.0 && rng.random::<f64>() < spec.hist_p {
        let mut p = spec.profile.clone();
        // histories: keep single calls cheap
        p.long_bias = 0.0;
        p.huge_bias = 0.0;
        mix::draw_history(&mut rng, &p, if spec.hist_p >= 1.0 { 8 } else { 4 })
    } else {
        mix::draw_solo(&mut rng, &spec.profile)
    }
}

/// Trace level actually used for a scenario (long runs use sampled snapshots, DESIGN C17)
pub fn trace_for(spec: &SoloSpec, sc: &Scenario) -> Trace {
    if spec.trace == Trace::Full && sc.config.max_opcodes.max(sc.config.min_opcodes) > 6_000 {
        Trace::Sampled(64)
    } else {
        spec.trace
    }
}

/// Evaluate one property on an executed scenario. Returns violations (first per call).
pub fn evaluate(prop: &str, sc: &Scenario, recs: &[CallRecord], stats: &mut Stats) -> Vec<Violation> {
    let mut out = vec![];
    for (ci, rec) in recs.iter().enumerate() {
        // the mode in force for this call (a history may switch modes between calls)
        let safe = !rec.config.unsafe_mutations;
        if rec.config.unsafe_mutations != sc.config.unsafe_mutations {
            stats.bump(if safe { "fault.hist.safe_call_after_unsafe_interlude" } else { "fault.hist.unsafe_interlude_call" });
        }
        stats.calls += 1;
        if rec.exhausted() {
            stats.bump("fault.cut.fired(script exhausted)");
        }
        if let Entropy::Bytes(b) = &rec.entropy {
            let used = b.len() - rec.entropy_left().unwrap_or(b.len()).min(b.len());
            stats.entropy_bytes += used as u64;
        }
        let Some(a) = props::analyse(rec) else {
            // no output: totality is C09's property; others have nothing to judge
            stats.bump("call.no_output");
            if prop == "C09" {
                out.extend(props::c09(rec));
            }
            continue;
        };
        stats.steps += a.ops.len() as u64;
        let dig = desc::digest(a.out);
        let n = a.ops.len();
        let mut v: Vec<Violation> = vec![];
        let mut nontrivial = false;
        match prop {
            "C01" => {
                if safe {
                    v = props::c01(&a);
                    let markc = a.ops.iter().filter(|o| o.info.before.contains('M')).count();
                    nontrivial = n >= 20 && markc >= 1;
                    if a.ops.iter().any(|o| o.name() == "READONLY_BUFFER") {
                        stats.bump("probe.readonly_buffer_emitted");
                    }
                }
            }
            "C02" => {
                if safe {
                    v = props::c02(&a);
                    let verdict = crate::machine::run(&a.ops, true, false);
                    nontrivial = verdict.gets_with_2plus_keys >= 1;
                    if verdict.max_memo > 255 {
                        stats.bump("probe.memo_gt_255");
                    }
                    if verdict.max_memo > 0 {
                        stats.bump("probe.memo_used");
                    }
                }
            }
            "C03" => {
                if safe {
                    v = props::c03(&a);
                    for o in &a.ops {
                        if matches!(
                            o.name(),
                            "APPEND" | "APPENDS" | "SETITEM" | "SETITEMS" | "ADDITEMS" | "DICT" | "STACK_GLOBAL" | "REDUCE" | "NEWOBJ" | "NEWOBJ_EX" | "BUILD" | "OBJ" | "DUP"
                        ) {
                            nontrivial = true;
                            stats.bump(&format!("probe.typed.{}", o.name()));
                        }
                    }
                }
            }
            "C04" => {
                v = props::c04(&a);
                let fired = rec.spy.iter().any(|r| match r {
                    exec::SpyRec::Value { out, .. } => out.is_some(),
                    exec::SpyRec::Post { fired, .. } => *fired,
                });
                if fired {
                    stats.bump("fault.mutation.fired(runs)");
                }
                if rec.spy.iter().any(|r| matches!(r, exec::SpyRec::Post { fired: true, .. })) {
                    stats.bump("fault.typeconfusion.rewrite(runs)");
                }
                let text = a.ops.iter().any(|o| {
                    matches!(
                        o.info.arg,
                        Some(crate::lexer::ArgKind::Stringnl)
                            | Some(crate::lexer::ArgKind::Unicodestringnl)
                            | Some(crate::lexer::ArgKind::Floatnl)
                            | Some(crate::lexer::ArgKind::DecimalnlShort)
                            | Some(crate::lexer::ArgKind::DecimalnlLong)
                            | Some(crate::lexer::ArgKind::StringnlNoescapePair)
                            | Some(crate::lexer::ArgKind::StringnlNoescape)
                    )
                });
                for o in &a.ops {
                    if o.name() == "STRING" {
                        if let crate::lexer::Arg::Data { start, end } = o.arg {
                            let inner = &a.out[start..end];
                            if inner.len() > 2 && inner[1..inner.len() - 1].iter().any(|&c| c == b'\\' || c == b'\'') {
                                stats.bump("probe.string_with_quote_or_backslash");
                            }
                        }
                    }
                    if o.name() == "EXT4" && o.int().is_some_and(|c| c < 0) {
                        stats.bump("probe.ext4_code_ge_2^31");
                    }
                    if matches!(o.name(), "FLOAT") {
                        if let crate::lexer::Arg::Float(f) = o.arg {
                            if !f.is_finite() {
                                stats.bump("probe.float_nan_or_inf");
                            }
                        }
                    }
                }
                nontrivial = fired || text;
            }
            "C05" => {
                if safe {
                    v = props::c05(&rec.config, &a);
                    nontrivial = n >= 20 || ci >= 1;
                    if ci >= 1 {
                        stats.bump("fault.hist.nth_call_judged");
                    }
                }
            }
            "C06" => {
                v = props::c06(&rec.config, &a);
                nontrivial = rec.config.protocol >= 4;
                if rec.config.protocol >= 4 {
                    if a.ops.iter().any(|o| o.name() == "FRAME") {
                        stats.bump("probe.framed");
                        if rec.spy.iter().any(|r| matches!(r, exec::SpyRec::Post { fired: true, .. })) {
                            stats.bump("probe.rewrite_in_framed_pickle");
                        }
                    } else {
                        stats.bump("probe.unframed");
                    }
                }
                if ci >= 1 {
                    stats.bump("fault.hist.nth_call_judged");
                }
            }
            "C10" => {
                v = props::c10(&rec.config, &a);
                let p = rec.config.protocol;
                nontrivial = (!rec.config.allow_ext && p >= 2) || (!rec.config.allow_buffer && p >= 5);
                if rec.config.allow_ext && a.ops.iter().any(|o| o.name().starts_with("EXT")) {
                    stats.bump("probe.ext_emitted_when_enabled");
                }
                if rec.config.allow_buffer && a.ops.iter().any(|o| o.name().ends_with("_BUFFER")) {
                    stats.bump("probe.buffer_emitted_when_enabled");
                }
            }
            "C11" => {
                v = props::c11(&rec.config, &a);
                nontrivial = !(rec.config.min_opcodes == 60 && rec.config.max_opcodes == 300);
                if let (Some(t), Some(b)) = (a.target, a.body_events) {
                    if b < t {
                        stats.bump("probe.body_shorter_than_target");
                    }
                }
                if rec.config.max_opcodes <= rec.config.min_opcodes {
                    stats.bump("fault.cfg.degenerate_range");
                }
                if ci >= 1 {
                    stats.bump("fault.hist.nth_call_judged");
                }
            }
            "C15" => {
                let mut st = props::C15Stats { sites: 0, sites_after_exhaustion_possible: 0, fired: 0 };
                v = props::c15(rec, &mut st);
                stats.add("c15.value_sites", st.sites as u64);
                stats.add("c15.mutations_fired", st.fired as u64);
                nontrivial = rec.entropy.is_bytes() && st.sites > 0 && (rec.config.rate == 0.0 || rec.config.rate == 1.0);
                if rec.exhausted() && st.sites > 0 {
                    stats.bump("probe.gate_with_exhausted_script(runs)");
                }
            }
            "C16" => {
                let mut st = props::C16Stats { fired_value: 0, fired_post: 0 };
                v = props::c16(rec, &mut st);
                stats.add("c16.value_mutations_checked", st.fired_value as u64);
                stats.add("c16.rewrites_checked", st.fired_post as u64);
                nontrivial = st.fired_value + st.fired_post > 0;
            }
            "C17" => {
                if safe {
                    let mut st = props::C17Stats { steps_compared: 0 };
                    v = props::c17(&a, &mut st);
                    stats.add("c17.steps_compared", st.steps_compared as u64);
                    nontrivial = st.steps_compared >= 20;
                }
            }
            "C09" => {
                v = props::c09(rec);
                nontrivial = rec.exhausted()
                    || rec.config.max_opcodes <= rec.config.min_opcodes
                    || !(0.0..=1.0).contains(&rec.config.rate)
                    || rec.config.unsafe_mutations;
            }
            _ => {}
        }
        if nontrivial {
            stats.nontrivial.insert(dig);
        }
        for mut x in v {
            x.detail = format!("call #{} of the history: {}", ci, x.detail);
            out.push(x);
        }
    }
    out
}

pub struct SweepOutcome {
    pub stats: Stats,
    pub found: Vec<Found>,
    pub wall_s: f64,
    pub capped: bool,
}

pub fn n_threads() -> usize {
    std::env::var("PFSIM_THREADS")
        .ok()
        .and_then(|s| s.parse().ok())
        .unwrap_or_else(|| std::thread::available_parallelism().map(|n| n.get()).unwrap_or(4).min(16))
}

/// run indices [0, runs) of a solo-family property, sharded over threads
/// one simulated run of a solo-family property: draw, execute, judge, account
/// scenario of run index i: seeded runs [0, runs), then deep periodic-script runs, then the
/// enumeration of short scripts
pub fn scenario_of(spec: &SoloSpec, seed: u64, tier: Tier, i: u64, runs: u64) -> Scenario {
    let deep = deep_count(spec, tier);
    let soak = soak_count(spec, tier);
    if i < runs {
        draw_for(spec, seed, tier, i)
    } else if i < runs + deep {
        deep_scenario(spec, seed, tier, i - runs)
    } else if i < runs + deep + soak {
        soak_scenario(spec, seed, i - runs - deep)
    } else {
        enum_scenario(spec, tier, i - runs - deep - soak)
    }
}

/// runs appended after the seeded ones (extremal-state runs, long-lived generators, enumerations)
pub fn extra_count(spec: &SoloSpec, tier: Tier) -> u64 {
    deep_count(spec, tier) + soak_count(spec, tier) + enum_count(spec, tier)
}

/// Long-lived generators: one generator serving 120..400 generation calls (the Atheris usage
/// pattern), every call judged. State that accumulates over a generator's lifetime (budgets,
/// counters, caches, buffers that are not part of reset()) only shows after many calls.
pub fn soak_count(spec: &SoloSpec, tier: Tier) -> u64 {
    match (spec.prop, tier) {
        ("C14", _) | ("C15", _) | ("C16", _) => 0,
        (_, Tier::Quick) => 16,
        (_, Tier::Thorough) => 300,
    }
}

pub fn soak_scenario(spec: &SoloSpec, seed: u64, k: u64) -> Scenario {
    use rand::Rng;
    let mut rng = mix::rng_from(desc::derive_seed(seed, "soak", k));
    let mut p = spec.profile.clone();
    p.long_bias = 0.0;
    p.huge_bias = 0.0;
    p.max_cap = 300;
    let mut config = mix::draw_config(&mut rng, &p);
    // half of the long-lived generators run with plain defaults
    if k % 2 == 0 {
        config = Config::default_for(config.protocol);
    }
    if k % 8 == 3 {
        // marathon: one large pickle (> 64 KiB), then more than two thousand small ones on the same generator
        // without explicit resets (periodic housekeeping - buffer trimming every 2^10 calls, counters
        // that wrap - only shows after thousands of calls and only when sizes differ a lot)
        let mut config = Config::default_for(config.protocol);
        // large enough for an output beyond 64 KiB (buffer-size classes of housekeeping code)
        config.min_opcodes = 9_000;
        config.max_opcodes = 10_000;
        let calls = rng.random_range(2_100..2_400usize);
        let mut history = Vec::with_capacity(calls + 4);
        history.push(HOp::Gen(Entropy::Rand(rng.random::<u64>() >> 8)));
        history.push(HOp::SetRange(10, 60));
        for _ in 0..calls {
            history.push(HOp::Gen(Entropy::Rand(rng.random::<u64>() >> 8)));
        }
        let faults = vec![desc::Fault { kind: "hist", at: calls, detail: format!("marathon: one 9000-10000 opcode pickle, then {} small generation calls on the same generator", calls) }];
        return Scenario { config, hash_key: rng.random(), history, faults, steer: None };
    }
    let calls = rng.random_range(120..400);
    let mut faults = vec![];
    let mut history = Vec::with_capacity(calls + 8);
    for _ in 0..calls {
        history.push(HOp::Gen(mix::draw_entropy(&mut rng, &p, &mut faults)));
        if rng.random_range(0..97) == 0 {
            history.push(HOp::Reset);
        }
        if rng.random_range(0..131) == 0 {
            // a short interlude in the other mode
            history.push(HOp::SetUnsafe(!config.unsafe_mutations));
            history.push(HOp::Gen(mix::draw_entropy(&mut rng, &p, &mut faults)));
            history.push(HOp::SetUnsafe(config.unsafe_mutations));
        }
    }
    faults.truncate(4);
    faults.push(desc::Fault { kind: "hist", at: calls, detail: format!("long-lived generator: {} generation calls", calls) });
    Scenario { config, hash_key: rng.random(), history, faults, steer: None }
}

/// Extremal-state runs ("deep runs"): long generations driven by a *periodic* fuzzer script (a
/// stuck or looping entropy source) or by an exhausted one. The same few choices repeated tens of
/// thousands of times push one dimension of the generator's state to an extreme — nesting depth of
/// the object graph, stack depth, number of open MARKs, memo size, output size — which is where
/// size thresholds, safety counters and recursion limits live. The patterns are found by an adaptive,
/// seeded search: candidates are probed cheaply (800 opcodes) and ranked per dimension by what the
/// reference machine R3 measures; the best ones are then run at scale.
pub fn deep_count(spec: &SoloSpec, tier: Tier) -> u64 {
    deep_base_count(spec, tier) + wide_count(spec, tier) + tail_variant_count(spec, tier) + sandwich_count(spec, tier) + pairdeep_count(spec, tier) + pairflat_count(spec, tier) + bigcontainer_count(spec, tier) + edge_count(spec, tier)
}

/// boundary-directed runs (threshold runs, argument sweeps, table sweeps): see edge.rs
pub fn edge_count(spec: &SoloSpec, tier: Tier) -> u64 {
    use std::sync::{Mutex, OnceLock};
    static CACHE: OnceLock<Mutex<std::collections::HashMap<(&'static str, bool), u64>>> = OnceLock::new();
    let cache = CACHE.get_or_init(|| Mutex::new(std::collections::HashMap::new()));
    let key = (spec.prop, tier == Tier::Thorough);
    if let Some(v) = cache.lock().unwrap().get(&key) {
        return *v;
    }
    let v = crate::edge::threshold_count(spec, tier) + crate::edge::argsweep_count(spec, tier) + crate::edge::table_count(spec, tier);
    cache.lock().unwrap().insert(key, v);
    v
}

/// "sharing x every next opcode" (C09): the opcode-pair patterns with the largest unfolded size,
/// repeated 60 times (2^60 paths for a doubling pattern such as DUP TUPLE2), followed by one more
/// choice byte 0..63 - the place where a recursive walk over the object (hash, compare, format)
/// would never finish
pub fn sandwich_count(spec: &SoloSpec, tier: Tier) -> u64 {
    match (spec.prop, tier) {
        ("C09", Tier::Quick) => 6 * 64,
        ("C09", Tier::Thorough) => 30 * 64,
        _ => 0,
    }
}

fn sandwich_scenario(seed: u64, k: u64) -> Scenario {
    let pairs: Vec<&PairPattern> = pair_patterns(seed).iter().filter(|p| p.unfolded_log2 >= 6).collect();
    if pairs.is_empty() {
        return Scenario::solo(Config::default_for(0), Entropy::Rand(k));
    }
    let pp = pairs[((k / 64) as usize) % pairs.len()];
    pp.scenario(60, Some((k % 64) as u8))
}

/// "nesting through opcode pairs": the pair patterns that nest one level per repetition (probe:
/// nesting >= 8 after 10 repetitions - TUPLE1-like wrappers, dict keys after a MARK stack, list
/// members, REDUCE / BUILD chains), one per constructor opcode in turn, repeated thousands of times
/// (a compact steering recipe resolved in the executing process). Recursive drops, clones,
/// comparisons or formatters over the nested object run out of stack here.
pub fn pairdeep_count(spec: &SoloSpec, tier: Tier) -> u64 {
    match (spec.prop, tier) {
        ("C09", Tier::Quick) => 96,
        ("C09", Tier::Thorough) => 384,
        ("C14", _) | ("C15", _) | ("C16", _) | ("C08", _) => 0,
        (_, Tier::Quick) => 4,
        (_, Tier::Thorough) => 20,
    }
}

/// "flat long outputs": the opcode pairs that leave the stack as they found it (push / POP, push /
/// pop-by-consumer ...), repeated until the output passes 128 KiB with an (almost) empty stack - the
/// place where size-triggered housekeeping that waits for a quiet moment (re-framing between
/// top-level objects, buffer flushes) would act. Framed and unframed for protocols >= 4.
pub fn pairflat_count(spec: &SoloSpec, tier: Tier) -> u64 {
    match (spec.prop, tier) {
        ("C14", _) | ("C15", _) | ("C16", _) | ("C08", _) => 0,
        ("C06", Tier::Quick) => 16,
        ("C06", Tier::Thorough) => 80,
        (_, Tier::Quick) => 4,
        (_, Tier::Thorough) => 24,
    }
}

/// "large container x every next opcode": MARK, k plain pushes, one collecting opcode (LIST, TUPLE,
/// DICT, FROZENSET) for k just past 2^8, 2^10 and 2^12 (the generator's own cost is quadratic in the
/// stack depth, 2^16 members are left to the beyond-2^16 runs), then every next choice byte 0..63 executed
/// with that container on top - size guards of single opcodes (copy limits, one-byte counts, caps
/// on what may be duplicated or memoised) sit here
pub fn bigcontainer_count(spec: &SoloSpec, tier: Tier) -> u64 {
    match (spec.prop, tier) {
        ("C14", _) | ("C15", _) | ("C16", _) | ("C08", _) => 0,
        (_, Tier::Quick) => (BIG_BUILDERS.len() * 3 * 64 * 2) as u64,
        (_, Tier::Thorough) => (BIG_BUILDERS.len() * 3 * 64 * 6) as u64,
    }
}

/// (collecting opcode, protocol, pushes per member); "" = no collecting opcode: the next choice is
/// made while the group above the MARK is still open
const BIG_BUILDERS: [(&str, u8, usize); 7] = [("LIST", 0, 1), ("TUPLE", 2, 1), ("DICT", 0, 2), ("FROZENSET", 4, 1), ("LIST", 5, 1), ("", 0, 1), ("", 3, 1)];
const BIG_SIZES: [usize; 3] = [260, 1_030, 4_100];

/// the steered program of a container with one deviating member: a callable and an argument tuple
/// below the MARK, then 31 x (text, None) and one (None, None), and the collecting opcode - for DICT
/// that is 32 entries of which 31 have string keys and one a None key (a check that samples "the
/// first few" members in iteration order sees the deviator in some instances and not in others)
pub fn mixed_container_ops(builder: &str, p: u8) -> Vec<String> {
    let text = if p == 0 { "UNICODE" } else { "BINUNICODE" };
    vec!["GLOBAL".to_string(), "EMPTY_TUPLE".to_string(), "MARK".to_string(), format!("({text} NONE)*31"), "NONE".to_string(), "NONE".to_string(), builder.to_string()]
}

fn bigcontainer_scenario(k: u64) -> Scenario {
    let b = (k % 64) as u8;
    let r = (k / 64) as usize;
    let (builder, p, per) = BIG_BUILDERS[(r / 3) % BIG_BUILDERS.len()];
    let round = r / (3 * BIG_BUILDERS.len());
    if r % 3 == 0 && round % 2 == 1 && !builder.is_empty() {
        // every other round the smallest size is replaced by the mixed-kind container (members of
        // two kinds: checks that look at "the first few" or at one representative member)
        let ops = mixed_container_ops(builder, p);
        let n = crate::synth::token_ops(&ops) + 1;
        let mut sc = Scenario::solo(tree_config(p, n), Entropy::Bytes(vec![]));
        sc.steer = Some(desc::Steer { ops, tail: Some(b), free: None });
        sc.faults.push(desc::Fault { kind: "steered", at: 0, detail: format!("callable, (), MARK, 31 x (text None), None None, {} (container with one deviating member on top), then choice byte 0x{:02x}", builder, b) });
        return sc;
    }
    let size = BIG_SIZES[r % 3];
    // thorough: the same with the other plain pushes
    let push = ["NONE", "EMPTY_TUPLE", "EMPTY_LIST"][(round / 2) % 3];
    let mut ops = vec!["MARK".to_string(), format!("{}*{}", push, size * per)];
    if !builder.is_empty() {
        ops.push(builder.to_string());
    }
    let n = crate::synth::token_ops(&ops) + 1;
    let mut sc = Scenario::solo(tree_config(p, n), Entropy::Bytes(vec![]));
    sc.steer = Some(desc::Steer { ops, tail: Some(b), free: None });
    sc.faults.push(desc::Fault {
        kind: "steered",
        at: 0,
        detail: format!("MARK, {} x {}, {} (a container of {} members on top), then choice byte 0x{:02x}", size * per, push, builder, size, b),
    });
    sc
}

fn pairflat_scenario(seed: u64, k: u64) -> Scenario {
    let all = pair_patterns(seed);
    // one group per pushing opcode and prefix shape, protocols 4 first (FRAME), candidate order inside
    let mut groups: Vec<((&'static str, usize, bool), Vec<&PairPattern>)> = vec![];
    for pp in all.iter().filter(|p| p.flat_bytes > 0 && p.nesting <= 2) {
        let key = (pp.a, pp.prefix.len(), pp.protocol >= 4);
        match groups.iter_mut().find(|g| g.0 == key) {
            Some(g) => g.1.push(pp),
            None => groups.push((key, vec![pp])),
        }
    }
    groups.sort_by(|x, y| y.0 .2.cmp(&x.0 .2).then(x.0 .1.cmp(&y.0 .1)).then(x.0 .0.cmp(y.0 .0)));
    if groups.is_empty() {
        return Scenario::solo(Config::default_for(0), Entropy::Rand(k));
    }
    let g = &groups[(k as usize / 2) % groups.len()];
    let round = (k as usize / 2) / groups.len();
    let pp = g.1[round % g.1.len()];
    // bytes per repetition from the probe (10 repetitions + header + tail): at least 2
    let per = ((pp.flat_bytes as usize).saturating_sub(8) / PAIR_PROBE_REPS).max(2);
    let reps = (140_000 / per).clamp(1_000, 70_000);
    pp.scenario_compact_framed(reps, k % 2 == 0)
}

fn pairdeep_scenario(seed: u64, tier: Tier, k: u64) -> Scenario {
    let all = pair_patterns(seed);
    // group by the structural opcodes of the pair (everything that is not a plain push), so that
    // every way of nesting - tuple items, list members, dict keys, REDUCE / BUILD chains, persistent
    // ids - gets its turn; single-constructor groups first, candidate order inside a group
    const FILLERS: [&str; 6] = ["MARK", "NONE", "EMPTY_TUPLE", "EMPTY_LIST", "EMPTY_DICT", "GLOBAL"];
    let mut groups: Vec<(Vec<&'static str>, Vec<&PairPattern>)> = vec![];
    for pp in all.iter().filter(|p| p.nesting >= 8) {
        let mut key: Vec<&'static str> = [pp.a, pp.b].into_iter().filter(|o| !FILLERS.contains(o)).collect();
        key.sort();
        match groups.iter_mut().find(|g| g.0 == key) {
            Some(g) => g.1.push(pp),
            None => groups.push((key, vec![pp])),
        }
    }
    groups.sort_by(|x, y| x.0.len().cmp(&y.0.len()).then(x.0.cmp(&y.0)));
    if groups.is_empty() {
        return Scenario::solo(Config::default_for(0), Entropy::Rand(k));
    }
    let g = &groups[(k as usize) % groups.len()];
    let round = (k as usize) / groups.len();
    let pp = g.1[round % g.1.len()];
    let reps = match tier {
        Tier::Quick => 20_000,
        Tier::Thorough => [6_000usize, 12_000, 20_000, 30_000][round % 4],
    };
    pp.scenario_compact(if pp.superlinear { reps.min(5_000) } else { reps })
}

/// "beyond 2^16" runs: the cheap extremal patterns (memo entries, open MARKs, nesting — their stack
/// stays shallow or is found at once, so 66 500 opcodes cost a fraction of a second) are pushed past
/// the 16-bit boundary, where u16 counters, 65 536-entry caps and 2-byte encodings break
pub fn wide_count(spec: &SoloSpec, tier: Tier) -> u64 {
    if deep_base_count(spec, tier) == 0 {
        return 0;
    }
    match tier {
        Tier::Quick => 10,
        Tier::Thorough => 40,
    }
}

/// a memo of 98 304 entries whose kinds cycle with period 3 (None, list, tuple - so that entry i and
/// entry i - 65 536 differ in kind), built by a stack-neutral steered program, followed by 900
/// free-running choices: half again as many entries as a 16-bit index can address
fn wide_mixed_memo(seed: u64, k: u64) -> Scenario {
    // the two runs of a round: protocols 2 and 4 with LONG_BINPUT, then 1 and 5, then the same
    // protocols with MEMOIZE (>= 4) in later rounds
    let (p, put) = match ((k / 10) % 4, k % 10 == 7) {
        (0, false) => (2u8, "LONG_BINPUT"),
        (0, true) => (4, "LONG_BINPUT"),
        (1, false) => (4, "MEMOIZE"),
        (1, true) => (5, "MEMOIZE"),
        (2, false) => (1, "LONG_BINPUT"),
        (2, true) => (5, "LONG_BINPUT"),
        (_, false) => (3, "LONG_BINPUT"),
        (_, true) => (4, "MEMOIZE"),
    };
    let reps = 32_768usize;
    let ops = vec![format!("(NONE {put} POP EMPTY_LIST {put} POP EMPTY_TUPLE {put} POP)*{reps}")];
    let free = 4_000usize;
    let n = reps * 9 + free;
    // steering happens under the decision-tree configuration (opt-in opcodes enabled)
    let c = tree_config(p, n);
    let mut sc = Scenario::solo(c, Entropy::Bytes(vec![]));
    sc.steer = Some(desc::Steer { ops, tail: None, free: Some((free, desc::derive_seed(seed, "wide.mixed", k))) });
    sc.faults.push(desc::Fault {
        kind: "steered",
        at: 0,
        detail: format!("98 304 memo entries of three alternating kinds through {put} (stack-neutral steered program), then {free} free-running choices"),
    });
    sc
}

/// "low slot after the wrap": the same mixed-kind memo filled to just past 65 536 entries (entry
/// 65 536 is a list, entry 0 is None), then a fetch of memo index 0 (BINGET / LONG_BINGET / GET with
/// an exhausted index draw), a plain push and a typed consumer that fits what a simulation that lost
/// the upper index bits believes is there. On code where the simulation mirrors the bytes the
/// consumer is not offered and the recipe is not steerable (nothing to judge); where indices wrap in
/// the simulation only, the steered pickle applies the consumer to the wrong kind.
fn wide_wrap_probe(k: u64) -> Scenario {
    let round = (k / 10) as usize;
    let (p, put) = [(2u8, "LONG_BINPUT"), (4, "LONG_BINPUT"), (1, "LONG_BINPUT"), (5, "MEMOIZE")][(round * 2 + (k % 10 == 9) as usize) % 4];
    let fetch = ["BINGET", "LONG_BINGET"][round % 2];
    // 21 846 units of three stores: entries 0 .. 65 537; entry 65 536 is the list
    let reps = 21_846usize;
    // ... and one more list on top: whatever index arithmetic the simulation uses past the wrap
    // (the next free index, or the same index again), the last store it made was a list
    let ops = vec![
        format!("(NONE {put} POP EMPTY_LIST {put} POP EMPTY_TUPLE {put} POP)*{reps}"),
        "EMPTY_LIST".to_string(),
        put.to_string(),
        "POP".to_string(),
        fetch.to_string(),
        "NONE".to_string(),
        "APPEND".to_string(),
    ];
    let n = crate::synth::token_ops(&ops);
    let mut sc = Scenario::solo(tree_config(p, n), Entropy::Bytes(vec![]));
    sc.steer = Some(desc::Steer { ops, tail: None, free: None });
    sc.faults.push(desc::Fault {
        kind: "steered",
        at: 0,
        detail: format!("65 538 memo entries of three alternating kinds through {put}, then {fetch} of index 0, NONE, APPEND (only steerable if the simulation believes slot 0 holds the list stored under 65 536)"),
    });
    sc
}

pub fn wide_scenario(spec: &SoloSpec, seed: u64, k: u64) -> Scenario {
    if k % 10 >= 8 {
        return wide_wrap_probe(k);
    }
    if k % 10 >= 6 {
        return wide_mixed_memo(seed, k);
    }
    let pats = deep_patterns(seed);
    // (objective, protocol group) in turn; rank = k / 10
    let (obj, low) = [(3usize, true), (3, false), (2, true), (2, false), (0, true), (0, false)][(k % 10) as usize];
    let rank = (k / 10) as usize;
    let mut idx: Vec<usize> = (0..pats.len())
        .filter(|&i| !pats[i].pat.is_empty() && !pats[i].once && (pats[i].protocol <= 1) == low && pats[i].score[obj] >= 700 && (pats[i].score[1] <= 8 || obj == 2 || obj == 0))
        .collect();
    idx.sort_by(|&a, &b| pats[b].score[obj].cmp(&pats[a].score[obj]).then(pats[a].protocol.cmp(&pats[b].protocol)).then(pats[a].pat.cmp(&pats[b].pat)).then(pats[a].pre.cmp(&pats[b].pre)));
    let Some(&pi) = idx.get(rank).or(idx.first()) else {
        // no cheap pattern for this dimension: fall back to an ordinary deep run
        return deep_scenario_base(spec, seed, Tier::Quick, k);
    };
    let pat = &pats[pi];
    // the periodic phase lasts until the dimension has crossed 2^16 (the probe measured its growth
    // per 800 opcodes); it is followed by a free-running phase of 900 pseudo-random choices executed
    // on that state (what a fuzzer input does after a long monotonous stretch)
    let periodic = ((65_600u64 * 800 / (pat.score[obj].max(1) as u64)) as usize).clamp(65_600, 76_000);
    let free = 900usize;
    let n = periodic + free;
    let mut script: Vec<u8> = pattern_bytes(&pat.pre, &pat.pat, periodic);
    {
        use rand::RngCore;
        let mut rng = mix::rng_from(desc::derive_seed(seed, "wide.tail", k));
        let mut tail = vec![0u8; free * 6];
        rng.fill_bytes(&mut tail);
        script.extend_from_slice(&tail);
    }
    let mut c = Config::default_for(pat.protocol);
    c.min_opcodes = n;
    c.max_opcodes = n;
    let mut sc = Scenario::solo(c, Entropy::Bytes(script));
    sc.faults.push(desc::Fault {
        kind: "stuck",
        at: 0,
        detail: format!("periodic script {} pushed past 2^16 for {} (probe scores {:?}) for {} opcodes, then {} free-running choices", pat.describe(), OBJECTIVES[obj], pat.score, periodic, free),
    });
    sc
}

/// "extreme state x every next opcode": for the best patterns of each dimension the periodic phase
/// is followed by one more choice byte b in 0..64 (a byte picks `b % n` among the n < 64 candidates),
/// so every opcode that can follow the extreme state is executed on it once
pub fn tail_variant_count(spec: &SoloSpec, tier: Tier) -> u64 {
    match (spec.prop, tier) {
        ("C09", Tier::Quick) => 4 * 64,
        ("C09", Tier::Thorough) => 20 * 64,
        ("C01", Tier::Thorough) | ("C03", Tier::Thorough) | ("C17", Tier::Thorough) | ("C04", Tier::Thorough) => 10 * 64,
        _ => 0,
    }
}

fn deep_base_count(spec: &SoloSpec, tier: Tier) -> u64 {
    match (spec.prop, tier) {
        ("C09", Tier::Quick) => 24,
        ("C09", Tier::Thorough) => 400,
        ("C08", Tier::Quick) => 18,
        ("C08", Tier::Thorough) => 60,
        ("C14", Tier::Quick) => 12,
        ("C14", Tier::Thorough) => 40,
        ("C15", _) | ("C16", _) => 0,
        (_, Tier::Quick) => 18,
        (_, Tier::Thorough) => 108,
    }
}

#[derive(Clone, Debug)]
pub struct Pattern {
    pub protocol: u8,
    /// false: the bytes repeat forever (a stuck / looping source); true: the bytes come once and the
    /// source is exhausted afterwards (a short input with a huge opcode budget)
    pub once: bool,
    /// bytes consumed once before the periodic phase (a steering prefix that brings the generator
    /// into the state in which the periodic byte keeps picking the same opcode)
    pub pre: Vec<u8>,
    pub pat: Vec<u8>,
    /// measured in the probe: nesting depth, max stack depth, max open MARKs, max memo size, output bytes
    pub score: [u32; 7],
}

pub const OBJECTIVES: [&str; 7] = ["nesting-depth", "stack-depth", "open-marks", "memo-size", "output-bytes", "framed-output-bytes", "mark-burial-depth"];

/// the fuzzer script of a pattern for a run of n opcodes
pub fn pattern_script(pre: &[u8], pat: &[u8], once: bool, n: usize) -> Vec<u8> {
    if pat.is_empty() {
        pre.to_vec()
    } else if once {
        let mut v = pre.to_vec();
        v.extend_from_slice(pat);
        v
    } else {
        pattern_bytes(pre, pat, n + 64)
    }
}

/// the first `nbytes` bytes of prefix + periodic phase
pub fn pattern_bytes(pre: &[u8], pat: &[u8], nbytes: usize) -> Vec<u8> {
    let mut v: Vec<u8> = pre.iter().copied().take(nbytes).collect();
    let mut j = 0usize;
    while v.len() < nbytes && !pat.is_empty() {
        v.push(pat[j % pat.len()]);
        j += 1;
    }
    v
}

impl Pattern {
    pub fn describe(&self) -> String {
        if self.pre.is_empty() {
            format!("{:02x?}", self.pat)
        } else {
            format!("{:02x?} after the prefix {:02x?}", self.pat, self.pre)
        }
    }
    /// text form used on the probing child's progress lines
    pub fn text(pre: &[u8], pat: &[u8], once: bool) -> String {
        format!("{}{}{}", if once { "once:" } else { "" }, if pre.is_empty() { String::new() } else { format!("pre{}+", desc::hex(pre)) }, desc::hex(pat))
    }
    pub fn parse_text(t: &str) -> (Vec<u8>, Vec<u8>, bool) {
        let once = t.starts_with("once:");
        let t = t.trim_start_matches("once:");
        let (pre, pat) = match t.strip_prefix("pre").and_then(|r| r.split_once('+')) {
            Some((a, b)) => (desc::unhex(a).unwrap_or_default(), b),
            None => (vec![], t),
        };
        (pre, desc::unhex(pat).unwrap_or_default(), once)
    }
}

fn probe_pattern(p: u8, pre: &[u8], pat: &[u8], once: bool) -> [u32; 7] {
    tick();
    let probe = 800usize;
    let mut c = Config::default_for(p);
    c.min_opcodes = probe;
    c.max_opcodes = probe;
    let script = pattern_script(pre, pat, once, probe);
    let sc = Scenario::solo(c, Entropy::Bytes(script));
    let recs = exec::run_scenario(&sc, Trace::Off, false);
    let Some(b) = recs.first().and_then(|r| r.outcome.bytes()) else { return [0; 7] };
    let (ops, err) = crate::lexer::lex(b);
    if err.is_some() {
        return [0, 0, 0, 0, b.len() as u32, 0, 0];
    }
    // one pass of the reference machine, tracking the extremes
    let mut m = crate::machine::Machine::new();
    m.track_graph = true;
    m.lenient_memo = true;
    let (mut max_stack, mut max_marks, mut max_memo) = (0u32, 0u32, 0u32);
    let mut burial = 0u32;
    for op in &ops {
        if m.step(op).is_err() {
            break;
        }
        max_stack = max_stack.max(m.stack.len() as u32);
        if m.stack.len() % 16 == 0 {
            if let Some(i) = m.stack.iter().position(|s| s.is_mark()) {
                burial = burial.max((m.stack.len() - 1 - i) as u32);
            }
        }
        max_memo = max_memo.max(m.memo.len() as u32);
        if op.name() == "MARK" {
            max_marks = max_marks.max(m.stack.iter().filter(|s| s.is_mark()).count() as u32);
        }
    }
    let framed = ops.iter().take(2).any(|o| o.name() == "FRAME");
    [m.max_depth, max_stack, max_marks, max_memo, b.len() as u32, if framed { b.len() as u32 } else { 0 }, burial]
}

// ------------------------------------------------------------------------------------------
// opcode-pair patterns and the "sharing" dimension

/// a repeating opcode pair (a b)* after a short prefix, ranked by how large the object on the
/// stack becomes when shared children are unfolded once per path (what a recursive walk without
/// memoisation - hashing, comparing, printing - would visit)
#[derive(Clone, Debug)]
pub struct PairPattern {
    pub protocol: u8,
    pub prefix: Vec<&'static str>,
    pub a: &'static str,
    pub b: &'static str,
    pub unfolded_log2: u32,
    pub nesting: u32,
    /// output bytes of the 10-repetition probe when the stack stayed flat (never more than 3 items,
    /// at most 2 at the end), else 0
    pub flat_bytes: u32,
    /// the stack grows with the repetitions, or the bytes allocated for 400 repetitions are more than
    /// 2.6 times those for 200 (copies of growing containers): such patterns cost O(n^2) on the
    /// unchanged tree and are run with fewer repetitions
    pub superlinear: bool,
}

pub const PAIR_VOCAB: [&str; 22] = [
    "MARK", "NONE", "EMPTY_TUPLE", "EMPTY_LIST", "EMPTY_DICT", "DUP", "TUPLE", "TUPLE1", "TUPLE2", "TUPLE3", "LIST", "DICT", "APPEND", "SETITEM", "BINPUT", "BINGET", "MEMOIZE", "POP", "GLOBAL", "REDUCE", "BUILD", "BINPERSID",
];
/// the last prefix stands for "as many MARKs as repetitions, plus 4" (a MARK for every DICT / LIST /
/// TUPLE of the periodic phase to consume)
pub const PAIR_PREFIXES: [&[&str]; 7] = [&["NONE"], &["MARK", "NONE"], &["EMPTY_TUPLE"], &["MARK", "EMPTY_TUPLE"], &["MARK*"], &["MARK*", "NONE"], &[]];
const PAIR_PROBE_REPS: usize = 10;

impl PairPattern {
    fn prefix_ops(&self, reps: usize) -> Vec<String> {
        if self.prefix.first() == Some(&"MARK*") {
            let mut v = vec!["MARK".to_string(); reps + 4];
            v.extend(self.prefix[1..].iter().map(|s| s.to_string()));
            v
        } else {
            self.prefix.iter().map(|s| s.to_string()).collect()
        }
    }
    pub fn prefix_len(&self, reps: usize) -> usize {
        self.prefix_ops(reps).len()
    }
    pub fn program(&self, reps: usize) -> Vec<String> {
        let mut v: Vec<String> = self.prefix_ops(reps);
        for _ in 0..reps {
            v.push(self.a.to_string());
            v.push(self.b.to_string());
        }
        v
    }
    /// the same program as a compact recipe (run-length tokens), for thousands of repetitions
    pub fn scenario_compact(&self, reps: usize) -> Scenario {
        self.scenario_compact_framed(reps, false)
    }
    pub fn scenario_compact_framed(&self, reps: usize, framed: bool) -> Scenario {
        let mut ops: Vec<String> = if self.prefix.first() == Some(&"MARK*") {
            let mut v = vec![format!("MARK*{}", reps + 4)];
            v.extend(self.prefix[1..].iter().map(|s| s.to_string()));
            v
        } else {
            self.prefix.iter().map(|s| s.to_string()).collect()
        };
        ops.push(format!("({} {})*{}", self.a, self.b, reps));
        if framed && self.protocol >= 4 {
            ops.insert(0, "+FRAME".to_string());
        }
        let n = self.prefix_len(reps) + 2 * reps;
        let mut sc = Scenario::solo(tree_config(self.protocol, n), Entropy::Bytes(vec![]));
        sc.steer = Some(desc::Steer { ops, tail: None, free: None });
        sc.faults.push(desc::Fault {
            kind: "steered",
            at: 0,
            detail: format!("prefix {:?} then ({} {}) x {} (probe: nesting {} after 10 repetitions)", self.prefix, self.a, self.b, reps, self.nesting),
        });
        sc
    }
    pub fn scenario(&self, reps: usize, tail: Option<u8>) -> Scenario {
        let ops = self.program(reps);
        let n = ops.len() + usize::from(tail.is_some());
        let mut sc = Scenario::solo(tree_config(self.protocol, n), Entropy::Bytes(vec![]));
        sc.steer = Some(desc::Steer { ops, tail, free: None });
        sc.faults.push(desc::Fault {
            kind: "steered",
            at: 0,
            detail: format!("prefix {:?} then ({} {}) x {}{} (probe: unfolded size 2^{}, nesting {})", self.prefix, self.a, self.b, reps, tail.map(|b| format!(", then choice byte 0x{:02x}", b)).unwrap_or_default(), self.unfolded_log2, self.nesting),
        });
        sc
    }
}

fn pair_candidates() -> Vec<(u8, usize, &'static str, &'static str)> {
    let mut v = vec![];
    for p in [0u8, 2, 4] {
        for (pi, _) in PAIR_PREFIXES.iter().enumerate() {
            for a in PAIR_VOCAB {
                for b in PAIR_VOCAB {
                    let ok = |n: &str| crate::lexer::by_name(n).is_some_and(|i| i.proto <= p);
                    if ok(a) && ok(b) {
                        v.push((p, pi, a, b));
                    }
                }
            }
        }
    }
    v
}

/// deterministic cost probe: bytes allocated on this thread while running `make(400)` against
/// `make(200)`; more than 2.6x means the pattern is super-linear (copies of growing containers)
/// a unit that copies (DUP / GET family) a container it also grows in place costs O(n^2) in a
/// simulator with copy semantics (each copy clones or re-hashes the grown container)
fn copies_what_it_grows(unit: &[&str]) -> bool {
    let copy = unit.iter().any(|o| matches!(*o, "DUP" | "BINGET" | "GET" | "LONG_BINGET"));
    let grow = unit.iter().any(|o| matches!(*o, "APPEND" | "APPENDS" | "SETITEM" | "SETITEMS" | "ADDITEMS"));
    copy && grow
}

fn superlinear_cost(make: impl Fn(usize) -> Scenario) -> bool {
    let cost = |reps: usize| -> u64 {
        let sc = make(reps);
        let before = crate::leak::total_allocated();
        let _ = exec::run_scenario(&sc, Trace::Off, false);
        crate::leak::total_allocated() - before
    };
    let (c2, c4) = (cost(200), cost(400));
    c4 > c2 * 26 / 10
}

/// probe one pair pattern: steer prefix + (a b)^10 through the real generator, measure with R3
fn probe_pair(p: u8, pi: usize, a: &'static str, b: &'static str) -> Option<PairPattern> {
    let mut pp = PairPattern { protocol: p, prefix: PAIR_PREFIXES[pi].to_vec(), a, b, unfolded_log2: 0, nesting: 0, flat_bytes: 0, superlinear: false };
    let sc = pp.scenario(PAIR_PROBE_REPS, None);
    let recs = exec::run_scenario(&sc, Trace::Off, false);
    let out = recs.first()?.outcome.bytes()?;
    let (ops, err) = crate::lexer::lex(out);
    if err.is_some() {
        return None;
    }
    let mut m = crate::machine::Machine::new();
    m.track_graph = true;
    m.lenient_memo = true;
    let mut best = 0;
    let mut max_stack = 0usize;
    // measured before the generator's own cleanup tail: header + prefix + 2*reps opcodes
    let body = pp.prefix_len(PAIR_PROBE_REPS) + 2 * PAIR_PROBE_REPS;
    let header = ops.iter().take(2).filter(|o| o.name() == "PROTO" || o.name() == "FRAME").count();
    for (i, op) in ops.iter().enumerate() {
        if i >= header + body {
            break;
        }
        if m.step(op).is_err() {
            return None;
        }
        best = best.max(m.unfolded_log2());
        max_stack = max_stack.max(m.stack.len());
    }
    pp.unfolded_log2 = best;
    pp.nesting = m.max_depth;
    if max_stack <= 3 && m.stack.len() <= 2 && m.memo.len() <= 1 {
        pp.flat_bytes = out.len() as u32;
    }
    if pp.nesting >= 8 {
        let growing = m.stack.len() > pp.prefix_len(PAIR_PROBE_REPS) + 3;
        pp.superlinear = growing || copies_what_it_grows(&[pp.a, pp.b]) || superlinear_cost(|reps| pp.scenario_compact(reps));
    }
    Some(pp)
}

pub fn pair_patterns(seed: u64) -> &'static Vec<PairPattern> {
    use std::sync::OnceLock;
    static CACHE: OnceLock<Vec<PairPattern>> = OnceLock::new();
    CACHE.get_or_init(|| {
        let cands = pair_candidates();
        if let Ok(path) = std::env::var("PFSIM_DEEP_FILE") {
            if let Ok(txt) = std::fs::read_to_string(&path) {
                if let Ok(v) = serde_json::from_str::<Value>(&txt) {
                    if v["seed"].as_str() == Some(&seed.to_string()) {
                        if let Some(a) = v["pairs"].as_array() {
                            let out: Vec<PairPattern> = a
                                .iter()
                                .filter_map(|e| {
                                    let i = e[0].as_u64()? as usize;
                                    let (p, pi, a, b) = *cands.get(i)?;
                                    Some(PairPattern { protocol: p, prefix: PAIR_PREFIXES[pi].to_vec(), a, b, unfolded_log2: e[1].as_u64()? as u32, nesting: e[2].as_u64()? as u32, flat_bytes: e[3].as_u64().unwrap_or(0) as u32, superlinear: e[4].as_bool().unwrap_or(false) })
                                })
                                .collect();
                            return out;
                        }
                    }
                }
            }
        }
        let nt = n_threads();
        let mut all: Vec<(usize, PairPattern)> = std::thread::scope(|s| {
            let cands = &cands;
            let hs: Vec<_> = (0..nt)
                .map(|t| {
                    s.spawn(move || {
                        let mut out = vec![];
                        let mut i = t;
                        while i < cands.len() {
                            let (p, pi, a, b) = cands[i];
                            pair_progress(i, true);
                            if let Some(pp) = probe_pair(p, pi, a, b) {
                                if pp.unfolded_log2 >= 6 || pp.nesting >= 8 || pp.flat_bytes > 0 {
                                    out.push((i, pp));
                                }
                            }
                            pair_progress(i, false);
                            i += nt;
                        }
                        out
                    })
                })
                .collect();
            hs.into_iter().flat_map(|h| h.join().unwrap()).collect()
        });
        // largest unfolded size first; ties by candidate order
        all.sort_by(|x, y| y.1.unfolded_log2.cmp(&x.1.unfolded_log2).then(x.0.cmp(&y.0)));
        PAIR_INDEX.get_or_init(|| all.iter().map(|x| x.0).collect());
        all.into_iter().map(|x| x.1).collect()
    })
}

static PAIR_INDEX: std::sync::OnceLock<Vec<usize>> = std::sync::OnceLock::new();

fn pair_progress(i: usize, begin: bool) {
    use std::io::Write;
    use std::sync::OnceLock;
    static ON: OnceLock<bool> = OnceLock::new();
    if *ON.get_or_init(|| std::env::var("PFSIM_PROBE_PROGRESS").is_ok()) {
        let o = std::io::stdout();
        let mut o = o.lock();
        let _ = writeln!(o, "{} {}", if begin { "QB" } else { "QE" }, i);
        let _ = o.flush();
    }
}

/// the probe run of pair candidate `i` as a scenario (attribution of a dead probing child)
pub fn pair_probe_scenarios(i: usize) -> Vec<Scenario> {
    let Some(&(p, pi, a, b)) = pair_candidates().get(i) else { return vec![] };
    let pp = PairPattern { protocol: p, prefix: PAIR_PREFIXES[pi].to_vec(), a, b, unfolded_log2: 0, nesting: 0, flat_bytes: 0, superlinear: false };
    // the 10-repetition probe and the two cost runs
    vec![pp.scenario(PAIR_PROBE_REPS, None), pp.scenario_compact(200), pp.scenario_compact(400)]
}

/// when PFSIM_PROBE_PROGRESS is set (the isolated probing child of the C09 check) every probe is
/// announced on stdout, so that a probe that kills or hangs the child can be attributed
fn probe_progress_full(i: usize, p: &u8, pre: &[u8], pat: &[u8], once: bool, begin: bool) {
    use std::io::Write;
    use std::sync::OnceLock;
    static ON: OnceLock<bool> = OnceLock::new();
    if *ON.get_or_init(|| std::env::var("PFSIM_PROBE_PROGRESS").is_ok()) {
        let o = std::io::stdout();
        let mut o = o.lock();
        let _ = writeln!(o, "{} {} {} {}", if begin { "PB" } else { "PE" }, i, p, Pattern::text(pre, pat, once));
        let _ = o.flush();
    }
}

/// the probe run of a pattern as a scenario (for attributing a death or hang of the probing child)
pub fn probe_scenario(p: u8, pre: &[u8], pat: &[u8], once: bool) -> Scenario {
    let probe = 800usize;
    let mut c = Config::default_for(p);
    c.min_opcodes = probe;
    c.max_opcodes = probe;
    Scenario::solo(c, Entropy::Bytes(pattern_script(pre, pat, once, probe)))
}

/// compute the probe table now (used by the isolated probing child)
pub fn force_deep_patterns(seed: u64) -> usize {
    deep_patterns(seed).len() + pair_patterns(seed).len() + triple_patterns(seed).len()
}

// ------------------------------------------------------------------------------------------
// model-proposed three-opcode periodic programs

/// a periodic program prefix . (unit)^k with a three-opcode unit
#[derive(Clone, Debug)]
pub struct NPattern {
    pub protocol: u8,
    pub prefix: Vec<&'static str>,
    pub unit: Vec<&'static str>,
    pub nesting: u32,
    pub superlinear: bool,
}

pub const TRIPLE_VOCAB: [&str; 19] = [
    "NONE", "EMPTY_TUPLE", "EMPTY_LIST", "EMPTY_DICT", "GLOBAL", "MARK", "DUP", "POP", "TUPLE1", "TUPLE2", "TUPLE", "LIST", "DICT", "APPEND", "SETITEM", "REDUCE", "BUILD", "NEWOBJ", "BINPERSID",
];
pub const TRIPLE_PREFIXES: [&[&str]; 8] = [&[], &["NONE"], &["EMPTY_LIST"], &["EMPTY_DICT"], &["GLOBAL"], &["GLOBAL", "EMPTY_TUPLE", "REDUCE"], &["MARK*"], &["MARK*", "NONE"]];
const FILLER_OPS: [&str; 6] = ["MARK", "NONE", "EMPTY_TUPLE", "EMPTY_LIST", "EMPTY_DICT", "GLOBAL"];

impl NPattern {
    fn tokens(&self, reps: usize) -> Vec<String> {
        let mut ops: Vec<String> = if self.prefix.first() == Some(&"MARK*") {
            let mut v = vec![format!("MARK*{}", reps + 4)];
            v.extend(self.prefix[1..].iter().map(|s| s.to_string()));
            v
        } else {
            self.prefix.iter().map(|s| s.to_string()).collect()
        };
        ops.push(format!("({})*{}", self.unit.join(" "), reps));
        ops
    }
    pub fn scenario(&self, reps: usize) -> Scenario {
        let ops = self.tokens(reps);
        let n = crate::synth::token_ops(&ops);
        let mut sc = Scenario::solo(tree_config(self.protocol, n), Entropy::Bytes(vec![]));
        sc.steer = Some(desc::Steer { ops, tail: None, free: None });
        sc.faults.push(desc::Fault {
            kind: "steered",
            at: 0,
            detail: format!("prefix {:?} then ({}) x {} (the reference machine nests {} levels in 10 repetitions)", self.prefix, self.unit.join(" "), reps, self.nesting),
        });
        sc
    }
    fn key(&self) -> Vec<&'static str> {
        let mut k: Vec<&'static str> = self.unit.iter().copied().filter(|o| !FILLER_OPS.contains(o)).collect();
        k.sort();
        k.dedup();
        k
    }
}

/// model-side proposal of three-opcode units (reference machine only, no code under test)
pub fn triple_proposals() -> &'static Vec<(usize, [&'static str; 3], u32)> {
    use std::sync::OnceLock;
    static CACHE: OnceLock<Vec<(usize, [&'static str; 3], u32)>> = OnceLock::new();
    CACHE.get_or_init(|| {
        // both aliasing semantics are tried: CPython's (DUP / GET alias) and the copying one a
        // simulator may implement (it is the generator, not the model, that decides what is built)
        let simulate1 = |prefix: &[&'static str], unit: &[&'static str], reps: usize, copy: bool| -> Option<(u32, usize)> {
            let mut m = crate::machine::Machine::new();
            m.track_graph = true;
            m.lenient_memo = true;
            m.copy_on_alias = copy;
            let mut prog: Vec<&'static str> = vec![];
            if prefix.first() == Some(&"MARK*") {
                prog.extend(std::iter::repeat("MARK").take(reps + 4));
                prog.extend_from_slice(&prefix[1..]);
            } else {
                prog.extend_from_slice(prefix);
            }
            for _ in 0..reps {
                prog.extend_from_slice(unit);
            }
            let mut max_stack = 0;
            for name in prog {
                let op = crate::synth::make_op(name, &m)?;
                match m.step(&op) {
                    Ok(info) if info.kind_violations.is_empty() => {}
                    _ => return None,
                }
                max_stack = max_stack.max(m.stack.len());
            }
            Some((m.max_depth, max_stack))
        };
        let simulate = |prefix: &[&'static str], unit: &[&'static str], reps: usize| -> Option<(u32, usize)> {
            match (simulate1(prefix, unit, reps, false), simulate1(prefix, unit, reps, true)) {
                (Some(a), Some(b)) => Some((a.0.max(b.0), a.1.max(b.1))),
                (a, b) => a.or(b),
            }
        };
        let mut proposals: Vec<(usize, [&'static str; 3], u32)> = vec![];
        for (pi, prefix) in TRIPLE_PREFIXES.iter().enumerate() {
            for a in TRIPLE_VOCAB {
                for b in TRIPLE_VOCAB {
                    for c in TRIPLE_VOCAB {
                        let unit = [a, b, c];
                        let Some((nest, max_stack)) = simulate(prefix, &unit, 10) else { continue };
                        let base = if prefix.first() == Some(&"MARK*") { 14 + prefix.len() } else { prefix.len() };
                        if nest < 8 || max_stack > base + 4 {
                            continue;
                        }
                        // units that merely pad a nesting pair with a plain push are pair patterns
                        if unit.iter().filter(|o| !FILLER_OPS.contains(o)).count() < 2 {
                            continue;
                        }
                        proposals.push((pi, unit, nest));
                    }
                }
            }
        }
        proposals
    })
}

/// the runs the probing child executes for proposal `i` (attribution of a dead probing child)
pub fn triple_probe_scenarios(i: usize) -> Vec<Scenario> {
    let Some(&(pi, unit, nest)) = triple_proposals().get(i) else { return vec![] };
    let mut out = vec![];
    for p in [2u8, 4] {
        let np = NPattern { protocol: p, prefix: TRIPLE_PREFIXES[pi].to_vec(), unit: unit.to_vec(), nesting: nest, superlinear: false };
        for reps in [10usize, 200, 400] {
            out.push(np.scenario(reps));
        }
    }
    out
}

fn triple_progress(i: usize, begin: bool) {
    use std::io::Write;
    use std::sync::OnceLock;
    static ON: OnceLock<bool> = OnceLock::new();
    if *ON.get_or_init(|| std::env::var("PFSIM_PROBE_PROGRESS").is_ok()) {
        let o = std::io::stdout();
        let mut o = o.lock();
        let _ = writeln!(o, "{} {}", if begin { "TB" } else { "TE" }, i);
        let _ = o.flush();
    }
}

/// Candidates are proposed by the reference machine R3 (no code under test involved): every unit of
/// three opcodes over a 19-opcode vocabulary after each of 8 prefixes is simulated for 10
/// repetitions (under CPython's aliasing semantics and under copying semantics); units with at least
/// two structural opcodes that nest >= 8 levels without an operand-rule violation and without
/// growing the stack are kept. Each survivor is then
/// steered through the real generator (10 repetitions); what the generator offers becomes a pattern.
pub fn triple_patterns(seed: u64) -> &'static Vec<NPattern> {
    use std::sync::OnceLock;
    static CACHE: OnceLock<Vec<NPattern>> = OnceLock::new();
    CACHE.get_or_init(|| {
        if let Ok(path) = std::env::var("PFSIM_DEEP_FILE") {
            if let Ok(txt) = std::fs::read_to_string(&path) {
                if let Ok(v) = serde_json::from_str::<Value>(&txt) {
                    if v["seed"].as_str() == Some(&seed.to_string()) {
                        if let Some(a) = v["triples"].as_array() {
                            let name = |x: &Value| x.as_str().and_then(|n| if n == "MARK*" { Some("MARK*") } else { crate::lexer::by_name(n).map(|i| i.name) });
                            return a
                                .iter()
                                .filter_map(|e| {
                                    Some(NPattern {
                                        protocol: e[0].as_u64()? as u8,
                                        prefix: e[1].as_array()?.iter().filter_map(name).collect(),
                                        unit: e[2].as_array()?.iter().filter_map(name).collect(),
                                        nesting: e[3].as_u64()? as u32,
                                        superlinear: e[4].as_bool().unwrap_or(false),
                                    })
                                })
                                .collect();
                        }
                    }
                }
            }
        }
        let proposals = triple_proposals();
        // 2. what the real generator offers: steer 10 repetitions
        let nt = n_threads();
        let mut kept: Vec<(usize, NPattern)> = std::thread::scope(|s| {
            let hs: Vec<_> = (0..nt)
                .map(|t| {
                    s.spawn(move || {
                        let mut out = vec![];
                        let mut i = t;
                        while i < proposals.len() {
                            let (pi, unit, nest) = proposals[i];
                            triple_progress(i, true);
                            for p in [2u8, 4] {
                                let mut np = NPattern { protocol: p, prefix: TRIPLE_PREFIXES[pi].to_vec(), unit: unit.to_vec(), nesting: nest, superlinear: false };
                                tick();
                                if crate::synth::steer_tokens(p, &np.tokens(10)).is_some() {
                                    np.superlinear = copies_what_it_grows(&np.unit) || superlinear_cost(|reps| np.scenario(reps));
                                    out.push((i, np));
                                    break;
                                }
                            }
                            triple_progress(i, false);
                            i += nt;
                        }
                        out
                    })
                })
                .collect();
            hs.into_iter().flat_map(|h| h.join().unwrap()).collect()
        });
        kept.sort_by_key(|x| x.0);
        kept.into_iter().map(|x| x.1).collect()
    })
}

fn tripledeep_scenario(seed: u64, tier: Tier, k: u64) -> Scenario {
    let all = triple_patterns(seed);
    let mut groups: Vec<(Vec<&'static str>, Vec<&NPattern>)> = vec![];
    for np in all.iter() {
        let key = np.key();
        match groups.iter_mut().find(|g| g.0 == key) {
            Some(g) => g.1.push(np),
            None => groups.push((key, vec![np])),
        }
    }
    groups.sort_by(|x, y| x.0.len().cmp(&y.0.len()).then(x.0.cmp(&y.0)));
    if groups.is_empty() {
        return Scenario::solo(Config::default_for(0), Entropy::Rand(k));
    }
    let g = &groups[(k as usize) % groups.len()];
    let round = (k as usize) / groups.len();
    let np = g.1[round % g.1.len()];
    // deep enough that a recursive walk of ~130 bytes per level overflows a 2 MiB stack
    let reps = match tier {
        Tier::Quick => 20_000,
        Tier::Thorough => [6_000usize, 12_000, 20_000, 30_000][round % 4],
    };
    np.scenario(if np.superlinear { reps.min(5_000) } else { reps })
}

/// (protocol, steering prefix, stuck byte) for every opcode X that the generator can be made to
/// repeat: some first choice a followed by a constant byte b yields X X X X X. Found by exhaustive
/// short probes (6 opcodes) over all (a, b) - and both framing decisions for protocols >= 4.
fn self_loops() -> Vec<(u8, Vec<u8>, u8)> {
    let nt = n_threads();
    let mut found: Vec<(u8, Vec<u8>, u8, u8)> = std::thread::scope(|s| {
        let hs: Vec<_> = (0..nt)
            .map(|t| {
                s.spawn(move || {
                    let mut out: Vec<(u8, Vec<u8>, u8, u8)> = vec![];
                    for p in 0..6u8 {
                        let frames: &[Option<u8>] = if p >= 4 { &[Some(0), Some(1)] } else { &[None] };
                        for f in frames {
                            let mut a = t;
                            while a < 256 {
                                for b in 0..=255u8 {
                                    let mut pre: Vec<u8> = f.iter().copied().collect();
                                    pre.push(a as u8);
                                    let mut c = Config::default_for(p);
                                    c.min_opcodes = 6;
                                    c.max_opcodes = 6;
                                    let mut script = pre.clone();
                                    script.extend(std::iter::repeat(b).take(24));
                                    let sc = Scenario::solo(c, Entropy::Bytes(script));
                                    let recs = exec::run_scenario(&sc, Trace::Off, false);
                                    let Some(o) = recs.first().and_then(|r| r.outcome.bytes()) else { continue };
                                    let (ops, err) = crate::lexer::lex(o);
                                    if err.is_some() {
                                        continue;
                                    }
                                    let body: Vec<u8> = ops.iter().map(|o| o.code()).filter(|c| *c != 0x80 && *c != 0x95).collect();
                                    if body.len() >= 7 && body[1..6].iter().all(|c| *c == body[1]) {
                                        out.push((p, pre, b, body[1]));
                                    }
                                }
                                a += nt;
                            }
                        }
                    }
                    out
                })
            })
            .collect();
        hs.into_iter().flat_map(|h| h.join().unwrap()).collect()
    });
    // one representative per (protocol, framing, repeated opcode): the smallest (prefix, byte)
    found.sort();
    let mut seen = std::collections::HashSet::new();
    let mut out = vec![];
    for (p, pre, b, x) in found {
        if pre.last() == Some(&b) {
            continue; // a plain constant script, already a candidate
        }
        if seen.insert((p, pre.len(), if pre.len() == 2 { pre[0] } else { 9 }, x)) {
            out.push((p, pre, b));
        }
    }
    out
}

pub fn deep_patterns(seed: u64) -> &'static Vec<Pattern> {
    use std::sync::OnceLock;
    static CACHE: OnceLock<(u64, Vec<Pattern>)> = OnceLock::new();
    let c = CACHE.get_or_init(|| {
        use rand::Rng;
        // a supervisor computes the table once and hands it to its workers through a file
        if let Ok(path) = std::env::var("PFSIM_DEEP_FILE") {
            if let Ok(txt) = std::fs::read_to_string(&path) {
                if let Ok(v) = serde_json::from_str::<Value>(&txt) {
                    if v["seed"].as_str() == Some(&seed.to_string()) {
                        if let Some(a) = v["patterns"].as_array() {
                            let pats: Vec<Pattern> = a
                                .iter()
                                .filter_map(|e| {
                                    let sc = e[2].as_array()?;
                                    let mut score = [0u32; 7];
                                    for (i, x) in sc.iter().enumerate().take(7) {
                                        score[i] = x.as_u64()? as u32;
                                    }
                                    Some(Pattern { protocol: e[0].as_u64()? as u8, once: e[3].as_bool().unwrap_or(false), pre: e[4].as_str().and_then(|x| desc::unhex(x).ok()).unwrap_or_default(), pat: desc::unhex(e[1].as_str()?).ok()?, score })
                                })
                                .collect();
                            if !pats.is_empty() {
                                return (seed, pats);
                            }
                        }
                    }
                }
            }
        }
        let mut cands: Vec<(u8, Vec<u8>, Vec<u8>, bool)> = vec![];
        for p in 0..6u8 {
            cands.push((p, vec![], vec![], false)); // the exhausted source
            for b in 0..=255u8 {
                cands.push((p, vec![], vec![b], false));
                // one choice byte, then exhausted: a tiny input with a huge opcode budget
                cands.push((p, vec![], vec![b], true));
            }
            let mut rng = mix::rng_from(desc::derive_seed(seed, "deep.patterns", p as u64));
            for _ in 0..96 {
                let n = rng.random_range(2..=3);
                cands.push((p, vec![], (0..n).map(|_| rng.random()).collect(), false));
            }
        }
        // steering prefix + stuck byte: every opcode that can follow itself indefinitely
        for (p, pre, b) in self_loops() {
            cands.push((p, pre, vec![b], false));
        }
        let nt = n_threads();
        let chunks: Vec<Vec<Pattern>> = std::thread::scope(|s| {
            let cands = &cands;
            let hs: Vec<_> = (0..nt)
                .map(|t| {
                    s.spawn(move || {
                        let mut out = vec![];
                        let mut i = t;
                        while i < cands.len() {
                            let (p, pre, pat, once) = &cands[i];
                            probe_progress_full(i, p, pre, pat, *once, true);
                            out.push((i, Pattern { protocol: *p, once: *once, pre: pre.clone(), pat: pat.clone(), score: probe_pattern(*p, pre, pat, *once) }));
                            probe_progress_full(i, p, pre, pat, *once, false);
                            i += nt;
                        }
                        out
                    })
                })
                .collect();
            let mut all: Vec<(usize, Pattern)> = hs.into_iter().flat_map(|h| h.join().unwrap()).collect();
            all.sort_by_key(|x| x.0);
            vec![all.into_iter().map(|x| x.1).collect()]
        });
        (seed, chunks.into_iter().flatten().collect())
    });
    &c.1
}

/// the ordered list of (pattern index, objective) the deep runs go through: rank by rank, objective
/// by objective, in turn for the protocol groups 0-1, 2-3 and 4-5
fn deep_schedule(seed: u64) -> &'static Vec<(usize, usize)> {
    use std::sync::OnceLock;
    static CACHE: OnceLock<Vec<(usize, usize)>> = OnceLock::new();
    CACHE.get_or_init(|| {
        let pats = deep_patterns(seed);
        let mut order: Vec<(usize, usize)> = vec![];
        let mut used = std::collections::HashSet::new();
        let ranked: Vec<Vec<Vec<usize>>> = (0..7)
            .map(|obj| {
                [0u8..=1, 2u8..=3, 4u8..=5]
                    .iter()
                    .map(|grp| {
                        let mut idx: Vec<usize> = (0..pats.len()).filter(|&i| grp.contains(&pats[i].protocol)).collect();
                        idx.sort_by(|&a, &b| pats[b].score[obj].cmp(&pats[a].score[obj]).then(pats[a].protocol.cmp(&pats[b].protocol)).then(pats[a].pat.cmp(&pats[b].pat)).then(pats[a].pre.cmp(&pats[b].pre)));
                        idx
                    })
                    .collect()
            })
            .collect();
        for rank in 0..pats.len() {
            for obj in 0..7 {
                for g in 0..3 {
                    if let Some(&i) = ranked[obj][g].get(rank) {
                        if pats[i].score[obj] > 0 && used.insert(i) {
                            order.push((i, obj));
                        }
                    }
                }
            }
            if order.len() >= 600 {
                break;
            }
        }
        order
    })
}

/// write the probe table to a file and export its path for worker processes
pub fn export_deep_patterns(seed: u64) {
    let dir = format!("{}/target/tmp", verif_root());
    let _ = std::fs::create_dir_all(&dir);
    let path = format!("{}/deep-patterns-{}.json", dir, std::process::id());
    export_deep_patterns_to(seed, &path);
}

pub fn export_deep_patterns_to(seed: u64, path: &str) {
    let pats = deep_patterns(seed);
    let path = path.to_string();
    let pairs = pair_patterns(seed);
    let idx = PAIR_INDEX.get().cloned().unwrap_or_default();
    let doc = json!({"seed": seed.to_string(), "patterns": pats.iter().map(|p| json!([p.protocol, desc::hex(&p.pat), p.score.to_vec(), p.once, desc::hex(&p.pre)])).collect::<Vec<_>>(),
        "pairs": pairs.iter().zip(idx.iter()).map(|(p, i)| json!([i, p.unfolded_log2, p.nesting, p.flat_bytes, p.superlinear])).collect::<Vec<_>>(),
        "triples": triple_patterns(seed).iter().map(|t| json!([t.protocol, t.prefix, t.unit, t.nesting, t.superlinear])).collect::<Vec<_>>()});
    if std::fs::write(&path, doc.to_string()).is_ok() {
        std::env::set_var("PFSIM_DEEP_FILE", &path);
    }
}

/// bytes of the periodic script consumed by exactly `n` body opcodes (measured once per pattern)
fn consumed_by(p: u8, pre: &[u8], pat: &[u8], n: usize) -> usize {
    use std::sync::{Mutex, OnceLock};
    static CACHE: OnceLock<Mutex<std::collections::HashMap<(u8, Vec<u8>, Vec<u8>, usize), usize>>> = OnceLock::new();
    let cache = CACHE.get_or_init(|| Mutex::new(std::collections::HashMap::new()));
    if let Some(v) = cache.lock().unwrap().get(&(p, pre.to_vec(), pat.to_vec(), n)) {
        return *v;
    }
    let mut c = Config::default_for(p);
    c.min_opcodes = n;
    c.max_opcodes = n;
    let total = n * 12 + 64;
    let script: Vec<u8> = pattern_bytes(pre, pat, total);
    let sc = Scenario::solo(c, Entropy::Bytes(script));
    let recs = exec::run_scenario(&sc, Trace::Light, false);
    let mut consumed = total;
    if let Some(r) = recs.first() {
        for e in &r.events {
            if let pickle_fuzzer::verif::Event::Phase { phase: pickle_fuzzer::verif::Phase::BodyDone, entropy_left: Some(l), .. } = e {
                consumed = total - *l;
            }
        }
    }
    cache.lock().unwrap().insert((p, pre.to_vec(), pat.to_vec(), n), consumed);
    consumed
}

fn tail_variant_scenario(spec: &SoloSpec, seed: u64, tier: Tier, k: u64) -> Scenario {
    let pats = deep_patterns(seed);
    let order = deep_schedule(seed);
    // patterns in schedule order, skipping the exhausted source (it has no periodic phase)
    let periodic: Vec<(usize, usize)> = order.iter().copied().filter(|(i, _)| !pats[*i].pat.is_empty() && !pats[*i].once).collect();
    let (pi, obj) = periodic[((k / 64) as usize) % periodic.len()];
    let b = (k % 64) as u8;
    let pat = &pats[pi];
    let n = match (tier, obj) {
        (Tier::Quick, 0) => 24_000usize,
        (Tier::Thorough, 0) => 30_000,
        _ => 9_000,
    };
    let used = consumed_by(pat.protocol, &pat.pre, &pat.pat, n);
    let mut script: Vec<u8> = pattern_bytes(&pat.pre, &pat.pat, used);
    script.push(b);
    let mut c = Config::default_for(pat.protocol);
    c.min_opcodes = n + 1;
    c.max_opcodes = n + 1;
    let mut sc = Scenario::solo(c, Entropy::Bytes(script));
    let _ = spec;
    sc.faults.push(desc::Fault {
        kind: "stuck",
        at: used,
        detail: format!("periodic script {} for {} opcodes ({}), then one choice byte 0x{:02x}, then exhausted", pat.describe(), n, OBJECTIVES[obj], b),
    });
    sc
}

pub fn deep_scenario(spec: &SoloSpec, seed: u64, tier: Tier, k: u64) -> Scenario {
    let base = deep_base_count(spec, tier);
    let wide = wide_count(spec, tier);
    let tails = tail_variant_count(spec, tier);
    let sandwich = sandwich_count(spec, tier);
    let pairdeep = pairdeep_count(spec, tier);
    let pairflat = pairflat_count(spec, tier);
    if k >= base + wide + tails + sandwich && k < base + wide + tails + sandwich + pairdeep {
        // two-opcode and three-opcode units in turn
        let j = k - base - wide - tails - sandwich;
        return if j % 2 == 0 { pairdeep_scenario(seed, tier, j / 2) } else { tripledeep_scenario(seed, tier, j / 2) };
    }
    if k >= base + wide + tails + sandwich + pairdeep && k < base + wide + tails + sandwich + pairdeep + pairflat {
        return pairflat_scenario(seed, k - base - wide - tails - sandwich - pairdeep);
    }
    let bigc = bigcontainer_count(spec, tier);
    if k >= base + wide + tails + sandwich + pairdeep + pairflat && k < base + wide + tails + sandwich + pairdeep + pairflat + bigc {
        return bigcontainer_scenario(k - base - wide - tails - sandwich - pairdeep - pairflat);
    }
    if k >= base + wide + tails + sandwich + pairdeep + pairflat + bigc {
        let e = k - base - wide - tails - sandwich - pairdeep - pairflat - bigc;
        let thr = crate::edge::threshold_count(spec, tier);
        let args = crate::edge::argsweep_count(spec, tier);
        return if e < thr {
            crate::edge::threshold_scenario(spec, seed, e)
        } else if e < thr + args {
            crate::edge::argsweep_scenario(spec, e - thr)
        } else {
            crate::edge::table_scenario(spec, e - thr - args)
        };
    }
    if k >= base + wide + tails {
        return sandwich_scenario(seed, k - base - wide - tails);
    }
    if k >= base + wide {
        return tail_variant_scenario(spec, seed, tier, k - base - wide);
    }
    if k >= base {
        return wide_scenario(spec, seed, k - base);
    }
    deep_scenario_base(spec, seed, tier, k)
}

fn deep_scenario_base(spec: &SoloSpec, seed: u64, tier: Tier, k: u64) -> Scenario {
    use rand::Rng;
    let pats = deep_patterns(seed);
    let order = deep_schedule(seed);
    let (pi, obj) = order[(k as usize) % order.len()];
    let pat = &pats[pi];
    let mut rng = mix::rng_from(desc::derive_seed(seed, "deep", k));
    // nesting-depth runs are cheap (small stack) and need > 18 000 levels to matter for a 2 MiB stack;
    // the others cost O(n * stack) and cross the interesting thresholds (8 192, 10 000, 128 KiB) early
    let n = match (tier, obj) {
        (Tier::Quick, 0) => rng.random_range(28_000..36_000usize),
        // 17 000..19 000 crosses 8 192, 10 000 and 16 384 (and, for most patterns, 64 and 128 KiB of output)
        (Tier::Quick, _) => rng.random_range(17_000..19_000usize),
        (Tier::Thorough, 0) => [12_000usize, 20_000, 30_000, 40_000, 50_000][(k % 5) as usize],
        (Tier::Thorough, _) => [9_000usize, 11_000, 16_000, 22_000, 30_000][(k % 5) as usize],
    };
    let script = pattern_script(&pat.pre, &pat.pat, pat.once, n);
    let mut c = Config::default_for(pat.protocol);
    c.min_opcodes = n;
    c.max_opcodes = n;
    let fault = desc::Fault {
        kind: "stuck",
        at: 0,
        detail: format!(
            "{} script {} chosen for {} (probe scores nesting/stack/marks/memo/bytes = {:?}), {} opcodes",
            if pat.pat.is_empty() { "exhausted".to_string() } else if pat.once { "one-byte-then-exhausted".to_string() } else { format!("periodic (period {})", pat.pat.len()) },
            pat.describe(),
            OBJECTIVES[obj],
            pat.score,
            n
        ),
    };
    let deep_call = HOp::Gen(Entropy::Bytes(script));
    let mut sc = Scenario::solo(c, Entropy::Rand(0));
    if spec.hist_p >= 1.0 || spec.prop == "C14" || k % 2 == 1 {
        // the extreme call first, then ordinary calls on the same generator (always for the history
        // properties, every other deep run for the rest: every call is judged)
        let follow = Entropy::Rand(rng.random::<u64>() >> 20);
        let f2 = Entropy::Rand(rng.random::<u64>() >> 20);
        let f3 = Entropy::Rand(rng.random::<u64>() >> 20);
        // three ordinary calls afterwards: housekeeping that reacts to the extreme call may only act
        // one or two calls later (capacity reviews, deferred shrinking)
        sc.history = match k % 3 {
            0 => vec![deep_call, HOp::SetRange(60, 300), HOp::Gen(follow), HOp::Gen(f2), HOp::Gen(f3)],
            1 => vec![deep_call, HOp::Reset, HOp::SetRange(10, 60), HOp::Gen(follow), HOp::SetRange(60, 300), HOp::Gen(f2), HOp::Gen(f3)],
            _ => vec![HOp::SetRange(10, 60), HOp::Gen(follow.clone()), HOp::SetRange(n, n), deep_call, HOp::SetRange(60, 300), HOp::Gen(follow), HOp::Gen(f2), HOp::Gen(f3)],
        };
    } else {
        sc.history = vec![deep_call];
    }
    sc.faults.push(fault);
    sc
}

pub fn run_one(spec: &SoloSpec, seed: u64, tier: Tier, i: u64, runs: u64, stats: &mut Stats) -> (Scenario, Vec<Violation>) {
    let sc = scenario_of(spec, seed, tier, i, runs);
    tick();
    if i >= runs + deep_count(spec, tier) + soak_count(spec, tier) {
        stats.bump("fault.cut.enumerated_short_script(runs)");
    } else if i >= runs + deep_count(spec, tier) {
        stats.bump("fault.hist.long_lived_generator(runs)");
    } else if i >= runs + deep_count(spec, tier) - edge_count(spec, tier) {
        stats.bump("fault.edge.boundary_directed(runs)");
    } else if i >= runs {
        stats.bump("fault.stuck.extremal_state_long_run(runs)");
    }
    let recs = if spec.prop == "C14" { vec![] } else { exec::run_scenario(&sc, trace_for(spec, &sc), spec.spy) };
    stats.evaluations += 1;
    if spec.prop == "C14" {
        stats.nontrivial.insert(desc::digest(sc.to_json().to_string().as_bytes()));
    }
    for f in &sc.faults {
        stats.bump(&format!("fault.{}.injected", f.kind));
    }
    if !sc.config.mutators.is_empty() {
        stats.bump("fault.mutators.registered(runs)");
    }
    if sc.history.len() > 1 {
        stats.bump("fault.hist.multi_op_history(runs)");
    }
    if sc.config.rate_via_field && !(0.0..=1.0).contains(&sc.config.rate) {
        stats.bump("fault.cfg.rate_out_of_range_or_nan");
    }
    let vs = evaluate_any(spec.prop, &sc, &recs, stats);
    if stats.samples.len() < 3 && (i % 16 == 0) {
        stats.samples.push(json!({"run_index": i, "scenario": sc.to_json(),
            "outputs": recs.iter().map(|r| match &r.outcome { exec::Outcome::Ok(b) => json!({"len": b.len(), "head_hex": desc::hex(&b[..b.len().min(48)])}), o => json!(format!("{:?}", o)) }).collect::<Vec<_>>()}));
    }
    if stats.py_samples.len() < 24 {
        for r in &recs {
            if let Some(b) = r.outcome.bytes() {
                if b.len() < 20_000 {
                    stats.py_samples.push((i, b.to_vec(), !r.config.unsafe_mutations));
                }
            }
        }
    }
    (sc, vs)
}

/// number of enumerated runs appended after the seeded ones: (a) every fuzzer script of length <= 1
/// (quick) / <= 2 (thorough) with default-size ranges, (b) "short programs": every 3-byte script over
/// the alphabet 0..A (A = 16 quick, 64 thorough; a byte picks `byte % n` among the n <= 64 candidate
/// opcodes) with min = max = 5 opcodes — a systematic walk of the decision tree near the empty stack
pub fn enum_count(spec: &SoloSpec, tier: Tier) -> u64 {
    let stacked = stacked_count(spec, tier);
    if !spec.enumerate_short {
        return stacked;
    }
    stacked + short_script_count(spec, tier) + short_program_count(tier)
}

/// "stacked" configurations: one mutator kind registered six times at rate 1.0 (every kind x every
/// protocol x S seeds, safe and - where the property allows - unsafe): repeated registration is
/// where per-value bounds (payload < 256 bytes, one rewrite per emission) are most at risk
pub fn stacked_count(spec: &SoloSpec, tier: Tier) -> u64 {
    if matches!(spec.prop, "C14" | "C12") {
        return 0;
    }
    let s = match tier {
        Tier::Quick => 50,
        Tier::Thorough => 600,
    };
    7 * 6 * s
}

fn stacked_scenario(spec: &SoloSpec, e: u64) -> Scenario {
    let kind = (e % 7) as u8;
    let p = ((e / 7) % 6) as u8;
    let seed = e / 42;
    let mut c = Config::default_for(p);
    c.mutators = vec![kind; 6];
    c.rate = 1.0;
    c.unsafe_mutations = spec.profile.allow_unsafe && seed % 2 == 1;
    c.allow_ext = seed % 3 == 0;
    c.allow_buffer = seed % 3 == 0;
    let mut sc = Scenario::solo(c, Entropy::Rand(seed));
    sc.faults.push(desc::Fault { kind: "mutators", at: 0, detail: format!("{} registered six times at rate 1", desc::MUT_NAMES[kind as usize]) });
    sc
}

fn short_script_count(spec: &SoloSpec, tier: Tier) -> u64 {
    let scripts: u64 = match tier {
        Tier::Quick => 1 + 256,
        Tier::Thorough => 1 + 256 + 65_536,
    };
    scripts * 6 * enum_passes(spec)
}

fn program_alphabet(tier: Tier) -> u64 {
    match tier {
        Tier::Quick => 16,
        Tier::Thorough => 64,
    }
}

fn short_program_count(tier: Tier) -> u64 {
    let a = program_alphabet(tier);
    a * a * a * 6
}

fn enum_passes(spec: &SoloSpec) -> u64 {
    if spec.profile.allow_unsafe {
        3
    } else {
        2
    }
}

/// e-th enumerated scenario
pub fn enum_scenario(spec: &SoloSpec, tier: Tier, e: u64) -> Scenario {
    let stacked = stacked_count(spec, tier);
    if e < stacked {
        return stacked_scenario(spec, e);
    }
    let e = e - stacked;
    let base = short_script_count(spec, tier);
    if e >= base {
        // short programs from the empty stack
        let x = e - base;
        let p = (x % 6) as u8;
        let a = program_alphabet(tier);
        let y = x / 6;
        let script = vec![(y % a) as u8, ((y / a) % a) as u8, ((y / (a * a)) % a) as u8];
        let mut c = Config::default_for(p);
        c.min_opcodes = 5;
        c.max_opcodes = 5;
        c.allow_ext = true;
        c.allow_buffer = true;
        let mut sc = Scenario::solo(c, Entropy::Bytes(script));
        sc.faults.push(desc::Fault { kind: "cut", at: 3, detail: "enumerated short program".into() });
        return sc;
    }
    let passes = enum_passes(spec);
    let pass = e % passes;
    let p = ((e / passes) % 6) as u8;
    let si = e / (passes * 6);
    let script: Vec<u8> = if si == 0 {
        vec![]
    } else if si <= 256 {
        vec![(si - 1) as u8]
    } else {
        let x = si - 257;
        vec![(x >> 8) as u8, (x & 0xff) as u8]
    };
    let mut c = Config::default_for(p);
    if pass >= 1 {
        c.mutators = vec![0, 1, 2, 3, 4, 5, 6];
        c.rate = 1.0;
        c.allow_ext = true;
        c.allow_buffer = true;
        c.unsafe_mutations = pass == 2;
    }
    let mut sc = Scenario::solo(c, Entropy::Bytes(script));
    sc.faults.push(desc::Fault { kind: "cut", at: sc_len(&sc), detail: "enumerated".into() });
    sc
}

fn sc_len(sc: &Scenario) -> usize {
    match &sc.history[0] {
        HOp::Gen(Entropy::Bytes(b)) => b.len(),
        _ => 0,
    }
}

/// generic sharded sweep over run indices [0, total): `f(i, stats)` executes run i
pub fn sweep_indices<F>(total: u64, wall_cap_s: f64, known: &[KnownFinding], shard: (u64, u64), threads: u64, on_begin_end: Option<&(dyn Fn(u64, bool) + Sync)>, f: F) -> SweepOutcome
where
    F: Fn(u64, &mut Stats) -> (Scenario, Vec<Violation>) + Sync,
{
    sweep_indices_from(0, total, wall_cap_s, known, shard, threads, on_begin_end, f)
}

/// the indices of [from, total) that belong to the shard
pub fn sweep_indices_from<F>(from: u64, total: u64, wall_cap_s: f64, known: &[KnownFinding], shard: (u64, u64), threads: u64, on_begin_end: Option<&(dyn Fn(u64, bool) + Sync)>, f: F) -> SweepOutcome
where
    F: Fn(u64, &mut Stats) -> (Scenario, Vec<Violation>) + Sync,
{
    let t0 = Instant::now();
    let nt = threads.max(1);
    let (shard_k, shard_n) = shard;
    let first_bad = AtomicU64::new(u64::MAX);
    let capped = std::sync::atomic::AtomicBool::new(false);
    let results: Vec<(Stats, Vec<Found>)> = std::thread::scope(|s| {
        let mut hs = vec![];
        for t in 0..nt {
            let first_bad = &first_bad;
            let capped = &capped;
            let f = &f;
            hs.push(
                std::thread::Builder::new()
                    .stack_size(if nt == 1 && shard_n > 1 { 2 << 20 } else { 16 << 20 })
                    .spawn_scoped(s, move || {
                        let mut stats = Stats::default();
                        let mut found = vec![];
                        // index i belongs to shard (i % shard_n), thread ((i / shard_n) % nt)
                        let j0 = if from > shard_k { (from - shard_k + shard_n - 1) / shard_n } else { 0 };
                        let mut j = j0 + ((t + nt - j0 % nt) % nt);
                        loop {
                            let i = j * shard_n + shard_k;
                            if i >= total {
                                break;
                            }
                            if i > first_bad.load(Ordering::Relaxed) {
                                break;
                            }
                            if (j / nt) % 64 == 0 && t0.elapsed().as_secs_f64() > wall_cap_s {
                                capped.store(true, Ordering::Relaxed);
                                break;
                            }
                            if let Some(cb) = on_begin_end {
                                cb(i, true);
                            }
                            let (sc, vs) = f(i, &mut stats);
                            if let Some(cb) = on_begin_end {
                                cb(i, false);
                            }
                            for v in vs {
                                if known_match(known, &v).is_some() {
                                    let key = format!("known.{}", v.class);
                                    if !stats.counters.contains_key(&key) {
                                        stats.known_examples.push(Found { index: i, scenario: sc.clone(), violation: v.clone() });
                                    }
                                    stats.bump(&key);
                                } else {
                                    found.push(Found { index: i, scenario: sc.clone(), violation: v });
                                    first_bad.fetch_min(i, Ordering::Relaxed);
                                    break;
                                }
                            }
                            j += nt;
                        }
                        (stats, found)
                    })
                    .unwrap(),
            );
        }
        hs.into_iter().map(|h| h.join().unwrap()).collect()
    });
    let mut stats = Stats::default();
    let mut found = vec![];
    for (s, f) in results {
        stats.merge(s);
        found.extend(f);
    }
    found.sort_by_key(|f| f.index);
    SweepOutcome {
        stats,
        found,
        wall_s: t0.elapsed().as_secs_f64(),
        capped: capped.load(Ordering::Relaxed),
    }
}

pub fn sweep_solo(spec: &SoloSpec, tier: Tier, seed: u64, runs: u64, wall_cap_s: f64, known: &[KnownFinding]) -> SweepOutcome {
    let total = runs + extra_count(spec, tier);
    sweep_indices(total, wall_cap_s, known, (0, 1), n_threads() as u64, None, |i, stats| run_one(spec, seed, tier, i, runs, stats))
}

/// the same sweep restricted to run indices <= upto (replay of a violation that depends on what
/// the process executed before it)
pub fn sweep_solo_prefix(spec: &SoloSpec, tier: Tier, seed: u64, runs: u64, upto: u64, known: &[KnownFinding]) -> SweepOutcome {
    let total = (runs + extra_count(spec, tier)).min(upto + 1);
    sweep_indices(total, 3600.0, known, (0, 1), n_threads() as u64, None, |i, stats| run_one(spec, seed, tier, i, runs, stats))
}

// ------------------------------------------------------------------------------------------
// known findings

#[derive(Clone, Debug)]
pub struct KnownFinding {
    pub status: String,
    pub property: String,
    pub class: String,
    pub what: String,
}

pub fn load_known() -> Vec<KnownFinding> {
    let path = format!("{}/known_findings.json", verif_root());
    let Ok(txt) = std::fs::read_to_string(&path) else { return vec![] };
    let Ok(v) = serde_json::from_str::<Value>(&txt) else { return vec![] };
    v.get("findings")
        .and_then(|f| f.as_array())
        .map(|a| {
            a.iter()
                .map(|e| KnownFinding {
                    status: e["status"].as_str().unwrap_or("").to_string(),
                    property: e["property"].as_str().unwrap_or("").to_string(),
                    class: e["class"].as_str().unwrap_or("").to_string(),
                    what: e["what"].as_str().unwrap_or("").to_string(),
                })
                .collect()
        })
        .unwrap_or_default()
}

/// a violation is covered by a *known* (not fixed) finding of the same property whose class
/// equals the violation's class
pub fn known_match<'a>(known: &'a [KnownFinding], v: &Violation) -> Option<&'a KnownFinding> {
    known
        .iter()
        .find(|k| k.status == "known" && k.property == v.property && k.class == v.class)
}

// ------------------------------------------------------------------------------------------
// minimisation of a single-generator scenario

pub fn reproduces(prop: &str, sc: &Scenario, class: &str, trace: Trace, spy: bool) -> bool {
    let recs = exec::run_scenario(sc, trace, spy);
    let mut st = Stats::default();
    evaluate_any(prop, sc, &recs, &mut st).iter().any(|v| v.class == class)
}

/// evaluate() plus the history-level oracles (C08)
pub fn evaluate_any(prop: &str, sc: &Scenario, recs: &[CallRecord], st: &mut Stats) -> Vec<Violation> {
    match prop {
        "C08" => crate::hist::c08(sc, recs, st),
        "C14" => crate::leak::c14(sc, st),
        _ => evaluate(prop, sc, recs, st),
    }
}

/// rough cost of executing a scenario: opcodes requested over all generation calls, with the range
/// in force for each call (quadratic for long calls: the generator's own cost grows with the stack)
pub fn estimated_cost(sc: &Scenario) -> u64 {
    let (mut lo, mut hi) = (sc.config.min_opcodes, sc.config.max_opcodes);
    let mut cost = 0u64;
    for h in &sc.history {
        match h {
            HOp::SetRange(a, b) => {
                lo = *a;
                hi = *b;
            }
            HOp::Gen(_) => {
                let n = lo.max(hi) as u64;
                cost += n + n * n / 4096;
            }
            _ => {}
        }
    }
    cost
}

pub fn minimise(prop: &str, sc: &Scenario, class: &str, trace: Trace, spy: bool, budget: usize, wall_s: f64) -> (Scenario, usize) {
    let t0 = Instant::now();
    let mut best = sc.clone();
    let mut tries = 0usize;
    // a candidate must not be much more expensive than what it simplifies (dropping a "set the
    // range back" operation from a long history would turn thousands of small calls into huge ones)
    let cost_cap = estimated_cost(sc) * 3 + 100_000;
    let ok = |cand: &Scenario, tries: &mut usize| -> bool {
        if *tries >= budget || t0.elapsed().as_secs_f64() > wall_s {
            return false;
        }
        if estimated_cost(cand) > cost_cap {
            return false;
        }
        *tries += 1;
        reproduces(prop, cand, class, trace, spy)
    };
    loop {
        let mut progressed = false;
        // 1. drop history operations
        let mut i = 0;
        while i < best.history.len() {
            if best.history.len() > 1 {
                let mut c = best.clone();
                c.history.remove(i);
                if c.history.iter().any(|h| h.is_gen()) && ok(&c, &mut tries) {
                    best = c;
                    progressed = true;
                    continue;
                }
            }
            i += 1;
        }
        // 2. configuration: drop mutators, flags off, smaller ranges, lower protocol
        let mut k = 0;
        while k < best.config.mutators.len() {
            let mut c = best.clone();
            c.config.mutators.remove(k);
            if ok(&c, &mut tries) {
                best = c;
                progressed = true;
            } else {
                k += 1;
            }
        }
        for f in 0..3 {
            let mut c = best.clone();
            match f {
                0 if c.config.allow_ext => c.config.allow_ext = false,
                1 if c.config.allow_buffer => c.config.allow_buffer = false,
                2 if c.config.unsafe_mutations => c.config.unsafe_mutations = false,
                _ => continue,
            }
            if ok(&c, &mut tries) {
                best = c;
                progressed = true;
            }
        }
        for _ in 0..24 {
            let mut c = best.clone();
            if c.config.max_opcodes > c.config.min_opcodes + 1 {
                c.config.max_opcodes = c.config.min_opcodes + (c.config.max_opcodes - c.config.min_opcodes) / 2;
            } else if c.config.min_opcodes > 0 {
                c.config.min_opcodes /= 2;
                c.config.max_opcodes = c.config.max_opcodes.min(c.config.min_opcodes * 2 + 1);
            } else {
                break;
            }
            if ok(&c, &mut tries) {
                best = c;
                progressed = true;
            } else {
                break;
            }
        }
        // 3. entropy scripts: shorten (earlier exhaustion is simpler), zero chunks
        for hi in 0..best.history.len() {
            if let HOp::Gen(Entropy::Bytes(b)) = &best.history[hi] {
                let mut cur = b.clone();
                // truncate by halves
                let mut cut = cur.len() / 2;
                while cut >= 1 && !cur.is_empty() {
                    let cand_bytes = cur[..cur.len() - cut.min(cur.len())].to_vec();
                    let mut c = best.clone();
                    c.history[hi] = HOp::Gen(Entropy::Bytes(cand_bytes.clone()));
                    if ok(&c, &mut tries) {
                        cur = cand_bytes;
                        best = c;
                        progressed = true;
                    } else {
                        cut /= 2;
                    }
                }
                // zero chunks
                let mut chunk = (cur.len() / 4).max(1);
                while chunk >= 1 && !cur.is_empty() {
                    let mut off = 0;
                    while off < cur.len() {
                        let end = (off + chunk).min(cur.len());
                        if cur[off..end].iter().any(|&x| x != 0) {
                            let mut cand_bytes = cur.clone();
                            for x in &mut cand_bytes[off..end] {
                                *x = 0;
                            }
                            let mut c = best.clone();
                            c.history[hi] = HOp::Gen(Entropy::Bytes(cand_bytes.clone()));
                            if ok(&c, &mut tries) {
                                cur = cand_bytes;
                                best = c;
                                progressed = true;
                            }
                        }
                        off = end;
                    }
                    if chunk == 1 {
                        break;
                    }
                    chunk /= 2;
                }
            }
        }
        if !progressed || tries >= budget || t0.elapsed().as_secs_f64() > wall_s {
            break;
        }
    }
    best.faults.clear();
    (best, tries)
}

// ------------------------------------------------------------------------------------------
// replay files

pub fn replay_dir() -> String {
    let d = format!("{}/replays", verif_root());
    let _ = std::fs::create_dir_all(&d);
    d
}

pub fn write_replay(prop: &str, kind: &str, body: Value, v: &Violation, minimised: bool, extra: Value) -> String {
    let name = format!(
        "{}/{}-{}-{:016x}.json",
        replay_dir(),
        prop,
        sanitize(&v.class),
        desc::digest(body.to_string().as_bytes())
    );
    let doc = json!({
        "property": prop,
        "kind": kind,
        "violation": {"class": v.class, "detail": v.detail, "step": v.step, "offset": v.offset},
        "minimised": minimised,
        "scenario": body,
        "extra": extra,
    });
    std::fs::write(&name, serde_json::to_string_pretty(&doc).unwrap()).expect("write replay");
    name
}

pub fn sanitize(s: &str) -> String {
    s.chars()
        .map(|c| if c.is_ascii_alphanumeric() || c == '-' || c == '_' { c } else { '_' })
        .take(60)
        .collect()
}

// ------------------------------------------------------------------------------------------
// evidence

pub struct EvidenceIn<'a> {
    pub prop: &'a str,
    pub tier: Tier,
    pub seed: u64,
    pub level: &'a str,
    pub rule: &'a str,
    pub stats: &'a Stats,
    pub wall_s: f64,
    pub violations: usize,
    pub known: usize,
    pub extra: Value,
    pub assumptions: Vec<String>,
    pub exhaustive: bool,
}

pub fn write_evidence(e: EvidenceIn) {
    let dir = format!("{}/evidence", verif_root());
    let _ = std::fs::create_dir_all(&dir);
    let runs_per_hour = if e.wall_s > 0.0 { (e.stats.evaluations as f64 / e.wall_s * 3600.0) as u64 } else { 0 };
    let mut faults = BTreeMap::new();
    let mut probes = BTreeMap::new();
    let mut other = BTreeMap::new();
    for (k, v) in &e.stats.counters {
        if let Some(r) = k.strip_prefix("fault.") {
            faults.insert(r.to_string(), *v);
        } else if let Some(r) = k.strip_prefix("probe.") {
            probes.insert(r.to_string(), *v);
        } else {
            other.insert(k.clone(), *v);
        }
    }
    let mut samples = e.stats.samples.clone();
    samples.sort_by_key(|s| s.get("run_index").and_then(|x| x.as_u64()).unwrap_or(u64::MAX));
    samples.truncate(3);
    let doc = json!({
        "property_id": e.prop,
        "tier": e.tier.name(),
        "seed": e.seed,
        "level": e.level,
        "coverage": {
            // one evaluation = one judged case; for history scenarios every generation call is judged
            "evaluations": e.stats.evaluations.max(e.stats.calls),
            "scenarios_executed": e.stats.evaluations,
            "distinct_nontrivial": e.stats.nontrivial.len(),
            "rule": e.rule,
            "samples": samples,
            "exhaustive": e.exhaustive,
            "generation_calls": e.stats.calls,
            "opcodes_decoded_and_stepped": e.stats.steps,
            "entropy_bytes_consumed": e.stats.entropy_bytes,
            "runs_per_hour": runs_per_hour,
            "seeds_per_hour": runs_per_hour,
            "simulated_time": "none: the code under test reads no clock; progress is counted in emission steps and entropy draws",
            "faults_injected_or_fired": faults,
            "reach_probes": probes,
            "counters": other,
            "known_findings_reported": e.known,
            "real_vs_stub": {
                "real": ["Generator (library built from /repo working tree, feature verif)", "both EntropySource adapters (ChaCha8Rng, arbitrary::Unstructured)", "all 7 mutators (Spy wrappers delegate to the real ones)"],
                "stub": [],
                "reference_models": ["R1 lexer", "R2 pickletools.dis emulation", "R3 kind machine", "R4 compatibility relation"],
                "not_simulated": ["allocation failure (aborts, does not unwind)"]
            },
            "extra": e.extra,
        },
        "assumptions": e.assumptions,
        "wall_s": (e.wall_s * 1000.0).round() / 1000.0,
        "violations": e.violations,
    });
    std::fs::write(format!("{}/{}.json", dir, e.prop), serde_json::to_string_pretty(&doc).unwrap()).expect("write evidence");
}

pub fn default_assumptions() -> Vec<String> {
    vec![
        "reference models R1-R4 are faithful to CPython 3.11 pickletools (cross-checked against the live module on a sample of every run unless PFSIM_PYTHON=off)".into(),
        "the verif hooks only observe (checked by C13: hook-free CLI bytes equal hooked library bytes)".into(),
        "sampling, not enumeration, except where exhaustive:true / stated enumerations".into(),
    ]
}

pub fn config_default(protocol: u8) -> Config {
    Config::default_for(protocol)
}

// ------------------------------------------------------------------------------------------
// systematic enumeration of the generator's decision tree from the empty stack

/// One node of the decision tree: the exact fuzzer script that makes the generator emit `ops`
/// (one byte per opcode choice, zero bytes for every argument draw) with min = max = ops.len().
#[derive(Clone, Debug)]
pub struct TreeNode {
    pub script: Vec<u8>,
    pub ops: Vec<u8>,
}

pub fn tree_config(protocol: u8, depth: usize) -> Config {
    let mut c = Config::default_for(protocol);
    c.min_opcodes = depth;
    c.max_opcodes = depth;
    c.allow_ext = true;
    c.allow_buffer = true;
    c
}

/// run the generator on `script` (padded with zeros) for exactly `depth` body opcodes; returns the
/// record, the body opcode bytes and the number of script bytes consumed
fn tree_run(protocol: u8, script: &[u8], depth: usize, trace: Trace) -> (Scenario, Vec<CallRecord>, Vec<u8>, usize) {
    let mut padded = script.to_vec();
    padded.extend_from_slice(&[0u8; 96]);
    let sc = Scenario::solo(tree_config(protocol, depth), Entropy::Bytes(padded.clone()));
    let recs = exec::run_scenario(&sc, trace, false);
    tick();
    let mut ops = vec![];
    let mut consumed = script.len();
    if let Some(r) = recs.first() {
        let mut in_body = false;
        for e in &r.events {
            match e {
                pickle_fuzzer::verif::Event::Phase { phase, entropy_left, .. } => match phase {
                    pickle_fuzzer::verif::Phase::Target => in_body = true,
                    pickle_fuzzer::verif::Phase::BodyDone => {
                        in_body = false;
                        if let Some(l) = entropy_left {
                            consumed = padded.len() - *l;
                        }
                    }
                    _ => {}
                },
                pickle_fuzzer::verif::Event::Op { opcode, .. } if in_body => ops.push(*opcode),
                _ => {}
            }
        }
    }
    (sc, recs, ops, consumed)
}

/// the same with a chosen trace level (runs that are also judged by an oracle)
pub fn tree_probe_with(protocol: u8, script: &[u8], depth: usize, trace: Trace) -> (Scenario, Vec<CallRecord>, Vec<u8>, usize) {
    tree_run(protocol, script, depth, trace)
}

/// public probe used by the program synthesiser's steering
pub fn tree_probe(protocol: u8, script: &[u8], depth: usize) -> (Scenario, Vec<CallRecord>, Vec<u8>, usize) {
    tree_run(protocol, script, depth, Trace::Light)
}

/// children of a node: every distinct opcode the next choice byte can select
fn tree_children(protocol: u8, node: &TreeNode, trace: Trace, visit: &mut dyn FnMut(&Scenario, &[CallRecord])) -> Vec<TreeNode> {
    let depth = node.ops.len() + 1;
    let mut seen: Vec<u8> = vec![];
    let mut seq: Vec<u8> = vec![];
    let mut out = vec![];
    for b in 0..=255u8 {
        let mut script = node.script.clone();
        script.push(b);
        let (sc, recs, ops, consumed) = tree_run(protocol, &script, depth, trace);
        if ops.len() != depth || ops[..depth - 1] != node.ops[..] {
            // the byte was not consumed as this step's choice (e.g. a single candidate needs no draw)
            seq.push(0);
            continue;
        }
        let op = ops[depth - 1];
        seq.push(op);
        if !seen.contains(&op) {
            seen.push(op);
            visit(&sc, &recs);
            let mut s2 = script.clone();
            if consumed > s2.len() {
                s2.resize(consumed, 0);
            }
            out.push(TreeNode { script: s2, ops });
        }
        // the choice is `byte % n`: once a full period has repeated, every candidate was seen
        let n = seq.len();
        if n >= 8 && n % 2 == 0 && seq[..n / 2] == seq[n / 2..] {
            break;
        }
    }
    out
}

pub struct TreeOutcome {
    pub stats: Stats,
    pub found: Vec<Found>,
    pub nodes: u64,
    pub depth: usize,
}

/// depth-first enumeration of all opcode-choice sequences of length <= depth for one property;
/// every node's pickle (the sequence plus the generator's own cleanup tail) is judged
pub fn tree_sweep(prop: &'static str, depth: usize, known: &[KnownFinding], wall_cap_s: f64) -> TreeOutcome {
    let t0 = Instant::now();
    let trace = if prop == "C17" { Trace::Full } else { Trace::Light };
    // work items: (protocol, frame bit) roots, expanded one level sequentially, then subtrees in parallel
    let mut level1: Vec<(u8, TreeNode)> = vec![];
    let mut stats = Stats::default();
    let mut found: Vec<Found> = vec![];
    let mut nodes = 0u64;
    for p in 0..6u8 {
        let roots: Vec<Vec<u8>> = if p >= 4 { vec![vec![0u8], vec![1u8]] } else { vec![vec![]] };
        for r in roots {
            let root = TreeNode { script: r, ops: vec![] };
            let mut visit = |sc: &Scenario, recs: &[CallRecord]| {
                nodes += 1;
                stats.evaluations += 1;
                for v in evaluate_any(prop, sc, recs, &mut stats) {
                    if known_match(known, &v).is_none() {
                        found.push(Found { index: nodes, scenario: sc.clone(), violation: v });
                    }
                }
            };
            for c in tree_children(p, &root, trace, &mut visit) {
                level1.push((p, c));
            }
        }
    }
    if depth >= 2 {
        let nt = n_threads();
        let next = AtomicU64::new(0);
        let parts: Vec<(Stats, Vec<Found>, u64)> = std::thread::scope(|s| {
            let level1 = &level1;
            let next = &next;
            let hs: Vec<_> = (0..nt)
                .map(|_| {
                    s.spawn(move || {
                        let mut stats = Stats::default();
                        let mut found = vec![];
                        let mut nodes = 0u64;
                        loop {
                            let i = next.fetch_add(1, Ordering::Relaxed) as usize;
                            if i >= level1.len() || t0.elapsed().as_secs_f64() > wall_cap_s {
                                break;
                            }
                            let (p, start) = &level1[i];
                            let mut stack = vec![start.clone()];
                            while let Some(n) = stack.pop() {
                                if n.ops.len() >= depth {
                                    continue;
                                }
                                let mut visit = |sc: &Scenario, recs: &[CallRecord]| {
                                    nodes += 1;
                                    stats.evaluations += 1;
                                    for v in evaluate_any(prop, sc, recs, &mut stats) {
                                        if known_match(known, &v).is_none() && found.len() < 20 {
                                            found.push(Found { index: (i as u64) << 32 | nodes, scenario: sc.clone(), violation: v });
                                        }
                                    }
                                };
                                let kids = tree_children(*p, &n, trace, &mut visit);
                                stack.extend(kids);
                            }
                        }
                        (stats, found, nodes)
                    })
                })
                .collect();
            hs.into_iter().map(|h| h.join().unwrap()).collect()
        });
        for (s, f, n) in parts {
            stats.merge(s);
            found.extend(f);
            nodes += n;
        }
    }
    found.sort_by_key(|f| f.index);
    TreeOutcome { stats, found, nodes, depth }
}
