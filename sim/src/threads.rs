//! `threads` scenario (DESIGN §2.3, C07): K generator tasks on W real OS threads whose
//! interleaving is decided, yield by yield, by a seeded scheduler. Exactly one thread runs at any
//! time (a baton handed over at the `verif::on_op` hook, i.e. at every emission step), so one
//! seed is one interleaving, recorded as a byte string and replayable from it.

use crate::desc::{self, Scenario};
use crate::engine::Stats;
use crate::exec::{self, Trace};
use crate::mix::{self, Profile};
use crate::props::Violation;
use pickle_fuzzer::verif;
use rand::{Rng, SeedableRng};
use rand_chacha::ChaCha8Rng;
use serde_json::{json, Value};
use std::sync::{Arc, Mutex};

#[derive(Clone, Copy, Debug, PartialEq, Eq)]
pub enum Policy {
    Uniform,
    Bursty,
    RoundRobin,
    /// PCT-style: run the highest-priority live worker; at `d` random steps demote the runner
    Pct,
    /// no preemption: a worker keeps the baton until it has finished all its tasks
    Sequential,
}

impl Policy {
    pub fn name(self) -> &'static str {
        match self {
            Policy::Uniform => "uniform",
            Policy::Bursty => "bursty",
            Policy::RoundRobin => "round-robin",
            Policy::Pct => "pct",
            Policy::Sequential => "sequential",
        }
    }
    pub fn from_name(s: &str) -> Policy {
        match s {
            "uniform" => Policy::Uniform,
            "round-robin" => Policy::RoundRobin,
            "pct" => Policy::Pct,
            "sequential" => Policy::Sequential,
            _ => Policy::Bursty,
        }
    }
}

#[derive(Clone, Debug)]
pub struct Plan {
    pub tasks: Vec<Scenario>,
    /// placement[w] = task indices worker w runs, in order
    pub placement: Vec<Vec<usize>>,
    pub policy: Policy,
    pub sched_seed: u64,
    /// when present the scheduler replays these decisions instead of drawing
    pub schedule: Option<Vec<u8>>,
    /// twin pairs (a, b): identical scenario except for the memo hash key
    pub twins: Vec<(usize, usize)>,
    /// clock-jump faults: at global scheduler step `s` every clock of the process jumps forward by
    /// `ns` (only effective under the LD_PRELOAD clock shim)
    pub clock_jumps: Vec<(u64, i64)>,
}

impl Plan {
    pub fn to_json(&self) -> Value {
        json!({
            "tasks": self.tasks.iter().map(|t| t.to_json()).collect::<Vec<_>>(),
            "placement": self.placement,
            "policy": self.policy.name(),
            "sched_seed": self.sched_seed.to_string(),
            "schedule_hex": self.schedule.as_ref().map(|s| desc::hex(s)),
            "twins": self.twins.iter().map(|(a, b)| vec![*a, *b]).collect::<Vec<_>>(),
            "clock_jumps": self.clock_jumps.iter().map(|(s, ns)| json!({"at_step": s, "ns": ns.to_string()})).collect::<Vec<_>>(),
        })
    }
    pub fn from_json(v: &Value) -> Option<Plan> {
        Some(Plan {
            tasks: v["tasks"].as_array()?.iter().map(|t| Scenario::from_json(t).ok()).collect::<Option<Vec<_>>>()?,
            placement: v["placement"]
                .as_array()?
                .iter()
                .map(|w| w.as_array().map(|a| a.iter().filter_map(|x| x.as_u64().map(|y| y as usize)).collect()))
                .collect::<Option<Vec<Vec<usize>>>>()?,
            policy: Policy::from_name(v["policy"].as_str()?),
            sched_seed: v["sched_seed"].as_str()?.parse().ok()?,
            schedule: match &v["schedule_hex"] {
                Value::String(h) => Some(desc::unhex(h).ok()?),
                _ => None,
            },
            twins: v["twins"]
                .as_array()?
                .iter()
                .filter_map(|p| {
                    let a = p.as_array()?;
                    Some((a.first()?.as_u64()? as usize, a.get(1)?.as_u64()? as usize))
                })
                .collect(),
            clock_jumps: v["clock_jumps"]
                .as_array()
                .map(|a| a.iter().filter_map(|j| Some((j["at_step"].as_u64()?, j["ns"].as_str()?.parse::<i64>().ok()?))).collect())
                .unwrap_or_default(),
        })
    }
}

struct Sched {
    turn: usize,
    alive: Vec<bool>,
    rng: ChaCha8Rng,
    policy: Policy,
    log: Vec<u8>,
    replay: Option<Vec<u8>>,
    pos: usize,
    step: u64,
    switches: u64,
    prio: Vec<i64>,
    change_points: Vec<u64>,
    /// per task: (step at start, step at end)
    spans: Vec<(u64, u64)>,
    diverged: bool,
    jumps: Vec<(u64, i64)>,
    jumps_fired: u64,
}

const NOBODY: usize = usize::MAX;

impl Sched {
    /// called by the baton holder `me` at a yield (or when it has finished): who runs next?
    fn decide(&mut self, me: usize, finished: bool) -> usize {
        self.step += 1;
        for (at, ns) in &self.jumps {
            if *at == self.step {
                crate::clock::advance(*ns);
                self.jumps_fired += 1;
            }
        }
        if finished {
            self.alive[me] = false;
        }
        let live: Vec<usize> = (0..self.alive.len()).filter(|&i| self.alive[i]).collect();
        if live.is_empty() {
            return NOBODY;
        }
        let next = if let Some(r) = &self.replay {
            let d = r.get(self.pos).copied().map(|x| x as usize);
            self.pos += 1;
            match d {
                Some(x) if self.alive.get(x).copied().unwrap_or(false) => x,
                _ => {
                    // the recorded schedule no longer fits the execution (the code changed)
                    self.diverged = true;
                    if self.alive[me] {
                        me
                    } else {
                        live[0]
                    }
                }
            }
        } else {
            match self.policy {
                Policy::Sequential => {
                    if self.alive[me] {
                        me
                    } else {
                        live[0]
                    }
                }
                Policy::Uniform => live[self.rng.random_range(0..live.len())],
                Policy::Bursty => {
                    if self.alive[me] && self.rng.random_range(0..16) != 0 {
                        me
                    } else {
                        live[self.rng.random_range(0..live.len())]
                    }
                }
                Policy::RoundRobin => {
                    // switch every 7th step to the next live worker
                    if self.alive[me] && self.step % 7 != 0 {
                        me
                    } else {
                        *live.iter().find(|&&w| w > me).unwrap_or(&live[0])
                    }
                }
                Policy::Pct => {
                    if self.change_points.contains(&self.step) && self.alive[me] {
                        let low = self.prio.iter().copied().min().unwrap_or(0) - 1;
                        self.prio[me] = low;
                    }
                    *live.iter().max_by_key(|&&w| self.prio[w]).unwrap()
                }
            }
        };
        if next != me {
            self.switches += 1;
        }
        self.log.push(next as u8);
        next
    }
}

struct Shared {
    m: Mutex<Sched>,
    /// thread handles for targeted wake-ups (park/unpark: no thundering herd)
    handles: Mutex<Vec<Option<std::thread::Thread>>>,
}

impl Shared {
    fn wake(&self, who: usize) {
        if who == NOBODY {
            return;
        }
        if let Some(Some(t)) = self.handles.lock().unwrap().get(who) {
            t.unpark();
        }
    }
}

pub struct SimResult {
    /// per task: outputs of its generation calls (None = error/panic)
    pub outputs: Vec<Vec<Option<Vec<u8>>>>,
    pub schedule: Vec<u8>,
    pub switches: u64,
    pub steps: u64,
    pub spans: Vec<(u64, u64)>,
    pub diverged: bool,
    pub clock_jumps_fired: u64,
}

fn task_outputs(sc: &Scenario) -> Vec<Option<Vec<u8>>> {
    exec::run_scenario(sc, Trace::Off, false).into_iter().map(|r| r.outcome.bytes().map(|b| b.to_vec())).collect()
}

pub fn run_plan(plan: &Plan) -> SimResult {
    let w = plan.placement.len();
    let mut rng = ChaCha8Rng::seed_from_u64(plan.sched_seed);
    let mut prio: Vec<i64> = (0..w as i64).collect();
    for i in (1..w).rev() {
        let j = rng.random_range(0..=i);
        prio.swap(i, j);
    }
    let d = 3;
    let change_points: Vec<u64> = (0..d).map(|_| rng.random_range(1..4000u64)).collect();
    let first = rng.random_range(0..w);
    let shared = Arc::new(Shared {
        m: Mutex::new(Sched {
            turn: NOBODY,
            alive: plan.placement.iter().map(|_| true).collect(),
            rng,
            policy: plan.policy,
            log: vec![],
            replay: plan.schedule.clone(),
            pos: 0,
            step: 0,
            switches: 0,
            prio,
            change_points,
            spans: vec![(0, 0); plan.tasks.len()],
            diverged: false,
            jumps: plan.clock_jumps.clone(),
            jumps_fired: 0,
        }),
        handles: Mutex::new(vec![None; w]),
    });
    let registered = Arc::new(std::sync::Barrier::new(w + 1));
    let results: Arc<Mutex<Vec<Vec<Option<Vec<u8>>>>>> = Arc::new(Mutex::new(vec![vec![]; plan.tasks.len()]));
    let mut handles = vec![];
    for me in 0..w {
        let shared = shared.clone();
        let results = results.clone();
        let registered = registered.clone();
        let my_tasks: Vec<(usize, Scenario)> = plan.placement[me].iter().map(|&t| (t, plan.tasks[t].clone())).collect();
        handles.push(
            std::thread::Builder::new()
                .stack_size(2 << 20)
                .spawn(move || {
                    shared.handles.lock().unwrap()[me] = Some(std::thread::current());
                    registered.wait();
                    let wait_turn = {
                        let shared = shared.clone();
                        move || loop {
                            if shared.m.lock().unwrap().turn == me {
                                break;
                            }
                            std::thread::park();
                        }
                    };
                    wait_turn();
                    {
                        let shared = shared.clone();
                        let wt = wait_turn.clone();
                        verif::install_yield(Some(Box::new(move || {
                            let next = {
                                let mut g = shared.m.lock().unwrap();
                                let n = g.decide(me, false);
                                g.turn = n;
                                n
                            };
                            if next != me {
                                shared.wake(next);
                                wt();
                            }
                        })));
                    }
                    for (t, sc) in &my_tasks {
                        {
                            let mut g = shared.m.lock().unwrap();
                            let s = g.step;
                            g.spans[*t].0 = s;
                        }
                        let outs = task_outputs(sc);
                        {
                            let mut g = shared.m.lock().unwrap();
                            let s = g.step;
                            g.spans[*t].1 = s;
                        }
                        results.lock().unwrap()[*t] = outs;
                    }
                    verif::install_yield(None);
                    let n = {
                        let mut g = shared.m.lock().unwrap();
                        let n = g.decide(me, true);
                        g.turn = n;
                        n
                    };
                    shared.wake(n);
                })
                .unwrap(),
        );
    }
    registered.wait();
    let start_worker = {
        let mut g = shared.m.lock().unwrap();
        let replay_first = g.replay.as_ref().and_then(|r| r.first().copied());
        let start = match replay_first {
            Some(x) => {
                g.pos = 1;
                (x as usize).min(w - 1)
            }
            None => first,
        };
        g.log.push(start as u8);
        g.turn = start;
        start
    };
    shared.wake(start_worker);
    for h in handles {
        let _ = h.join();
    }
    let g = shared.m.lock().unwrap();
    let outputs = results.lock().unwrap().clone();
    SimResult {
        outputs,
        schedule: g.log.clone(),
        switches: g.switches,
        steps: g.step,
        spans: g.spans.clone(),
        diverged: g.diverged,
        clock_jumps_fired: g.jumps_fired,
    }
}

/// reference: the task alone, on a fresh thread, canonical hash key
pub fn reference(sc: &Scenario, key: u64) -> Vec<Option<Vec<u8>>> {
    let mut s = sc.clone();
    s.hash_key = key;
    std::thread::Builder::new().stack_size(2 << 20).spawn(move || task_outputs(&s)).unwrap().join().unwrap_or_default()
}

pub fn draw_plan(seed: u64, index: u64) -> Plan {
    let mut rng = ChaCha8Rng::seed_from_u64(desc::derive_seed(seed, "C07", index));
    let profile = Profile {
        allow_unsafe: true,
        long_bias: 0.0,
        // memo traffic is where map order could matter: moderately long runs, memo mutators
        memo_mutators: true,
        mutators_p: 0.5,
        max_cap: 400,
        ..Profile::default()
    };
    // "wide twins": two plans per thousand run one beyond-2^16 memo scenario (65 600+ memo entries
    // from a stuck source, then 900 free-running choices) and its twin under another hash key -
    // candidate lists that are truncated or reordered only for huge memos show here
    if index % 1000 == 500 || index % 1000 == 501 {
        if let Some(spec) = crate::engine::spec_for("C02", crate::engine::Tier::Quick) {
            let mut sc = crate::engine::wide_scenario(&spec, seed, index % 2);
            sc.faults.clear();
            sc.hash_key = rng.random();
            let mut t = sc.clone();
            t.hash_key = rng.random();
            let policy = if index % 2 == 0 { Policy::Bursty } else { Policy::Sequential };
            return Plan { tasks: vec![sc, t], placement: vec![vec![0], vec![1]], policy, sched_seed: rng.random(), schedule: None, twins: vec![(0, 1)], clock_jumps: vec![] };
        }
    }
    // "container twins": four generators given the same steered input that builds a container with
    // one deviating member (32 dict entries / 64 members) above a callable and an argument tuple, followed by a
    // dozen free-running choices. The simulated containers are keyed by addresses and carry their
    // own hasher state: anything decided from their iteration order differs between instances.
    if index % 1000 == 502 || index % 1000 == 503 || index % 1000 == 504 {
        let (builder, p) = [("DICT", 4u8), ("FROZENSET", 5), ("DICT", 2)][(index % 1000 - 502) as usize];
        let ops = crate::engine::mixed_container_ops(builder, p);
        let n = crate::synth::token_ops(&ops);
        let mut sc = Scenario::solo(crate::engine::tree_config(p, n), desc::Entropy::Bytes(vec![]));
        sc.steer = Some(desc::Steer { ops, tail: None, free: Some((12, rng.random())) });
        // resolved here, outside the scheduled task threads
        if let Some(mut sc) = crate::exec::resolve_steer(&sc) {
            sc.hash_key = rng.random();
            let mut tasks = vec![];
            for _ in 0..4 {
                let mut t = sc.clone();
                t.hash_key = rng.random();
                tasks.push(t);
            }
            return Plan { tasks, placement: vec![vec![0], vec![1], vec![2, 3]], policy: Policy::Bursty, sched_seed: rng.random(), schedule: None, twins: vec![(0, 1), (2, 3), (0, 2)], clock_jumps: vec![] };
        }
    }
    // one plan in 16 is a "long twins" plan: few tasks, thousands of opcodes each, so that the memo
    // grows past 256 entries (the BINGET candidate filter and other large-memo paths are exercised
    // under different hash keys)
    let long_plan = rng.random_range(0..16) == 0;
    let long_profile = Profile { long_bias: 1.0, max_cap: 6_000, mutators_p: 0.3, protocols: Some(vec![1, 2, 3, 4, 5]), ..profile.clone() };
    let base_n = if long_plan { rng.random_range(1..=2) } else { rng.random_range(1..=5) };
    let mut tasks = vec![];
    let mut twins = vec![];
    for _ in 0..base_n {
        let mut sc = if long_plan {
            mix::draw_solo(&mut rng, &long_profile)
        } else if rng.random_range(0..4) == 0 {
            mix::draw_history(&mut rng, &profile, 3)
        } else {
            mix::draw_solo(&mut rng, &profile)
        };
        sc.faults.clear();
        let a = tasks.len();
        tasks.push(sc.clone());
        // most tasks get a twin with another memo hash key
        if long_plan || rng.random_range(0..5) != 0 {
            let mut t = sc.clone();
            t.hash_key = rng.random();
            twins.push((a, tasks.len()));
            tasks.push(t);
        }
    }
    let w = rng.random_range(1..=tasks.len().min(16)).max(if tasks.len() > 1 { 2 } else { 1 });
    let mut placement: Vec<Vec<usize>> = vec![vec![]; w];
    // twins go to different workers when possible; everything else is placed at random
    let mut order: Vec<usize> = (0..tasks.len()).collect();
    for i in (1..order.len()).rev() {
        let j = rng.random_range(0..=i);
        order.swap(i, j);
    }
    for t in order {
        let mut wk = rng.random_range(0..w);
        if let Some(&(a, b)) = twins.iter().find(|(a, b)| *a == t || *b == t) {
            let other = if a == t { b } else { a };
            if let Some(ow) = placement.iter().position(|p| p.contains(&other)) {
                if ow == wk && w > 1 {
                    wk = (wk + 1 + rng.random_range(0..w - 1)) % w;
                }
            }
        }
        placement[wk].push(t);
    }
    placement.retain(|p| !p.is_empty());
    let policy = match rng.random_range(0..10) {
        0..=3 => Policy::Bursty,
        4..=5 => Policy::Uniform,
        6 => Policy::RoundRobin,
        7..=8 => Policy::Pct,
        _ => Policy::Sequential,
    };
    // one plan in three carries clock-jump faults (1 s .. 1 h) at random scheduler steps
    let mut clock_jumps = vec![];
    if rng.random_range(0..3) == 0 {
        for _ in 0..rng.random_range(1..=3) {
            let at = rng.random_range(1..if long_plan { 20_000u64 } else { 2_500 });
            let ns = [1_000_000_000i64, 5_000_000_000, 60_000_000_000, 3_600_000_000_000][rng.random_range(0..4)];
            clock_jumps.push((at, ns));
        }
    }
    Plan { tasks, placement, policy, sched_seed: rng.random(), schedule: None, twins, clock_jumps }
}

pub struct PlanVerdict {
    pub violation: Option<Violation>,
    pub nontrivial: bool,
    pub overlapped_twins: u64,
    pub colocated_workers: u64,
    pub sim: SimResult,
}

pub fn judge(plan: &Plan, stats: &mut Stats) -> PlanVerdict {
    let sim = run_plan(plan);
    let mut violation = None;
    let mut overlapped = 0u64;
    for (a, b) in &plan.twins {
        let (sa, sb) = (sim.spans[*a], sim.spans[*b]);
        if sa.0 < sb.1 && sb.0 < sa.1 {
            overlapped += 1;
        }
    }
    let colocated = plan.placement.iter().filter(|p| p.len() >= 2).count() as u64;
    // every task against its solo reference (canonical key, alone, fresh thread)
    let mut refs: Vec<Option<Vec<Option<Vec<u8>>>>> = vec![None; plan.tasks.len()];
    for t in 0..plan.tasks.len() {
        // twins share a scenario: compute the reference once
        let r = match plan.twins.iter().find(|(_, b)| *b == t) {
            Some((a, _)) if refs[*a].is_some() => refs[*a].clone().unwrap(),
            _ => reference(&plan.tasks[t], 0),
        };
        refs[t] = Some(r.clone());
        if sim.outputs[t] != r && violation.is_none() {
            // which dimension? alone with its own hash key on a fresh thread:
            let alone = reference(&plan.tasks[t], plan.tasks[t].hash_key);
            let without_jumps = if plan.clock_jumps.is_empty() {
                None
            } else {
                let mut q = plan.clone();
                q.clock_jumps.clear();
                q.schedule = Some(sim.schedule.clone());
                Some(run_plan(&q).outputs[t] == r)
            };
            let dim = if alone != r {
                "hash-key"
            } else if without_jumps == Some(true) {
                "clock"
            } else {
                // without preemption?
                let mut seq = plan.clone();
                seq.policy = Policy::Sequential;
                seq.schedule = None;
                let s2 = run_plan(&seq);
                if s2.outputs[t] != r {
                    "colocation"
                } else {
                    "interleaving"
                }
            };
            let worker = plan.placement.iter().position(|p| p.contains(&t)).unwrap_or(0);
            violation = Some(Violation::new(
                "C07",
                format!("twin-differs({})", dim),
                format!(
                    "task {} (worker {}, position {} on it) returned bytes that differ from the same configuration and entropy run alone on a fresh thread; {} tasks on {} workers, policy {}, {} baton switches",
                    t,
                    worker,
                    plan.placement[worker].iter().position(|x| *x == t).unwrap_or(0),
                    plan.tasks.len(),
                    plan.placement.len(),
                    plan.policy.name(),
                    sim.switches
                ),
            ));
        }
    }
    stats.add("fault.switch.baton_handoffs", sim.switches);
    stats.add("fault.clock.jumps_fired", sim.clock_jumps_fired);
    stats.add("fault.rekey.twin_tasks_executed", plan.twins.len() as u64);
    stats.add("fault.colocate.workers_with_2plus_tasks", colocated);
    stats.add("probe.twins_overlapped_in_time", overlapped);
    stats.add("c07.task_executions", plan.tasks.len() as u64);
    stats.steps += sim.steps;
    if plan.placement.iter().any(|p| p.len() >= 3) {
        stats.bump("probe.worker_ran_3plus_tasks");
    }
    // non-trivial: a GET-family emission with >= 2 memo keys (the only place map order can reach
    // the output), or twins overlapped
    let mut get2 = false;
    for outs in sim.outputs.iter() {
        for o in outs.iter().flatten() {
            let (ops, err) = crate::lexer::lex(o);
            if err.is_none() && crate::machine::run(&ops, true, false).gets_with_2plus_keys > 0 {
                get2 = true;
            }
        }
    }
    if get2 {
        stats.bump("probe.get_with_2plus_memo_keys(sims)");
    }
    if sim.outputs.iter().flatten().flatten().any(|o| {
        let (ops, err) = crate::lexer::lex(o);
        err.is_none() && crate::machine::run(&ops, true, false).max_memo > 256
    }) {
        stats.bump("probe.memo_gt_256_in_a_task(sims)");
    }
    PlanVerdict { violation, nontrivial: get2 || overlapped > 0, overlapped_twins: overlapped, colocated_workers: colocated, sim }
}

/// digest of a fixed batch of scenarios, for cross-process comparison (`proc` dimension)
/// what a process does before the compared batch (proc dimension of C07): nothing, one generation
/// in unsafe mode with all mutators, one with the opt-in opcodes enabled under protocol 5, one long
/// generation, or one generation from fuzzer bytes on a reused generator
pub fn prelude(kind: u64) {
    let mut c = desc::Config::default_for(2);
    match kind {
        1 => {
            c.unsafe_mutations = true;
            c.mutators = (0..7u8).collect();
            c.rate = 1.0;
        }
        2 => {
            c.protocol = 5;
            c.allow_ext = true;
            c.allow_buffer = true;
        }
        3 => {
            c.protocol = 4;
            c.min_opcodes = 3_000;
            c.max_opcodes = 3_000;
        }
        4 => {
            c.protocol = 0;
        }
        _ => return,
    }
    let mut sc = Scenario::solo(c, desc::Entropy::Rand(kind));
    if kind == 4 {
        sc.history.push(desc::HOp::Gen(desc::Entropy::Bytes(vec![7u8; 200])));
    }
    let _ = exec::run_scenario(&sc, Trace::Off, false);
}

pub fn digest_batch(seed: u64, n: u64) -> String {
    let profile = Profile { allow_unsafe: true, memo_mutators: true, max_cap: 400, long_bias: 0.0, ..Profile::default() };
    let mut lines = String::new();
    for i in 0..n {
        let mut rng = ChaCha8Rng::seed_from_u64(desc::derive_seed(seed, "C07.proc", i));
        let mut sc = mix::draw_solo(&mut rng, &profile);
        // processes are compared under their own fresh std hash keys; the simulator-chosen memo key
        // differs per process on purpose
        sc.hash_key = desc::mix64(std::process::id() as u64 ^ i);
        let outs = task_outputs(&sc);
        let mut d = 0u64;
        for o in outs.iter() {
            d = desc::mix64(d ^ o.as_ref().map(|b| desc::digest(b)).unwrap_or(7));
        }
        lines.push_str(&format!("{:016x}\n", d));
    }
    lines
}
