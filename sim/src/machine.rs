//! R2 — exact emulation of the symbolic stack/memo check of CPython `pickletools.dis`
//! (quirks included), and R3 — the same machine with a kind and an identity per slot.
//!
//! The pop/push skeleton is driven *only* by the `stack_before` / `stack_after` columns of
//! the pickletools opcode table (see optable.rs), exactly like `dis`. The kind decoration
//! (`decorate`) never changes how many slots are popped or pushed, so R2's verdict cannot be
//! influenced by R3.

use crate::lexer::{Arg, Op};
use std::collections::HashMap;

#[derive(Clone, Copy, Debug, PartialEq, Eq, Hash)]
pub enum Kind {
    Int,
    Bool,
    Float,
    None,
    Bytes,
    ByteArray,
    Str,
    /// STRING / BINSTRING / SHORT_BINSTRING: str or bytes depending on the unpickler's encoding
    LegacyStr,
    List,
    Tuple,
    Dict,
    Set,
    FrozenSet,
    Global,
    /// result of REDUCE / NEWOBJ / NEWOBJ_EX / INST / OBJ (and BUILD keeps it)
    Object,
    Buffer,
    /// kind left open by the format: PERSID / BINPERSID / EXT* results
    Any,
    Mark,
}

impl Kind {
    pub fn name(self) -> &'static str {
        use Kind::*;
        match self {
            Int => "int",
            Bool => "bool",
            Float => "float",
            None => "none",
            Bytes => "bytes",
            ByteArray => "bytearray",
            Str => "str",
            LegacyStr => "legacystr",
            List => "list",
            Tuple => "tuple",
            Dict => "dict",
            Set => "set",
            FrozenSet => "frozenset",
            Global => "global",
            Object => "object",
            Buffer => "buffer",
            Any => "any",
            Mark => "mark",
        }
    }
    /// kinds the pickle format leaves open are accepted wherever a specific kind is required
    pub fn open(self) -> bool {
        matches!(self, Kind::Any | Kind::LegacyStr)
    }
    pub fn is_data(self) -> bool {
        use Kind::*;
        matches!(
            self,
            Int | Bool | Float | None | Bytes | ByteArray | Str | List | Tuple | Dict | Set | FrozenSet | Buffer | Mark
        )
    }
}

#[derive(Clone, Copy, Debug, PartialEq, Eq)]
pub struct Slot {
    pub kind: Kind,
    pub id: u32,
}

impl Slot {
    pub fn is_mark(&self) -> bool {
        self.kind == Kind::Mark
    }
}

#[derive(Clone, Debug, PartialEq, Eq)]
pub enum DisError {
    /// "no MARK exists on stack"
    NoMark,
    /// "tries to pop N items from stack with only M items"
    Underflow { need: usize, have: usize },
    /// IndexError inside dis: stale markstack entry, no markobject on the stack
    DisCrash,
    /// "memo key already defined"
    PutRedefine,
    /// "stack is empty -- can't store into memo"
    PutOnEmpty,
    /// "can't store markobject in the memo"
    PutOnMark,
    /// "memo key has never been stored into"
    GetUndefined,
    /// "stack not empty after STOP"
    StopDepth { left: usize },
}

impl DisError {
    pub fn class(&self, opname: &str) -> String {
        match self {
            DisError::NoMark => format!("no-mark({})", opname),
            DisError::Underflow { .. } => format!("underflow({})", opname),
            DisError::DisCrash => format!("dis-crash({})", opname),
            DisError::PutRedefine => format!("put-redefine({})", opname),
            DisError::PutOnEmpty => format!("put-on-empty({})", opname),
            DisError::PutOnMark => format!("put-on-mark({})", opname),
            DisError::GetUndefined => format!("get-undefined({})", opname),
            DisError::StopDepth { left } => format!("stop-depth({})", left + 1),
        }
    }
    pub fn is_memo(&self) -> bool {
        matches!(
            self,
            DisError::PutRedefine | DisError::PutOnEmpty | DisError::PutOnMark | DisError::GetUndefined
        )
    }
}

/// a C03 operand-rule violation found while executing one opcode
#[derive(Clone, Debug, PartialEq, Eq)]
pub struct KindViolation {
    pub class: String,
}

#[derive(Clone, Debug, Default)]
pub struct Machine {
    pub stack: Vec<Slot>,
    pub markstack: usize,
    /// memo key -> slot stored (python ints and the True/False hack compare equal: key as i128)
    pub memo: HashMap<i128, Slot>,
    next_id: u32,
    /// object graph for alias-cycle detection: container id -> child ids
    pub children: HashMap<u32, Vec<u32>>,
    /// a container became reachable from itself (under CPython aliasing semantics)
    pub cycle_seen: bool,
    pub track_graph: bool,
    /// nesting depth per object id (containers: 1 + deepest child), when `track_graph`
    pub depth_of: HashMap<u32, u32>,
    pub max_depth: u32,
    /// continue past memo errors the way the real unpickler would (PUT overwrites; an undefined
    /// GET pushes an `Any`; a PUT on mark/empty is skipped) and collect them in `memo_errors`
    pub lenient_memo: bool,
    /// only PUT re-definitions are tolerated (overwrite)
    pub lenient_redefine: bool,
    pub memo_errors: Vec<DisError>,
    /// proposal heuristic only (never used by an oracle): DUP and the GET family push a *shallow
    /// copy* (new identity, same children) instead of an alias - the shape of the object graph a
    /// simulator that copies would build
    pub copy_on_alias: bool,
}

/// what `step` reports besides the R2 verdict
#[derive(Clone, Debug, Default)]
pub struct StepInfo {
    pub kind_violations: Vec<KindViolation>,
}

fn memo_key(op: &Op) -> Option<i128> {
    match op.arg {
        Arg::Int(v) => Some(v),
        Arg::Bool(b) => Some(b as i128),
        _ => Option::None,
    }
}

impl Machine {
    pub fn new() -> Self {
        Self::default()
    }

    fn fresh(&mut self, kind: Kind) -> Slot {
        self.next_id += 1;
        Slot { kind, id: self.next_id }
    }

    fn reaches(&self, from: u32, target: u32) -> bool {
        let mut seen = std::collections::HashSet::new();
        let mut todo = vec![from];
        while let Some(x) = todo.pop() {
            if x == target {
                return true;
            }
            if !seen.insert(x) {
                continue;
            }
            if let Some(c) = self.children.get(&x) {
                todo.extend(c.iter().copied());
            }
        }
        false
    }

    fn shallow_copy(&mut self, s: Slot) -> Slot {
        let c = self.fresh(s.kind);
        if self.track_graph {
            if let Some(ch) = self.children.get(&s.id).cloned() {
                self.children.insert(c.id, ch);
            }
            if let Some(d) = self.depth_of.get(&s.id).copied() {
                self.depth_of.insert(c.id, d);
            }
        }
        c
    }

    fn add_children(&mut self, parent: u32, kids: &[Slot]) {
        if !self.track_graph {
            return;
        }
        for k in kids {
            if k.is_mark() {
                continue;
            }
            if self.reaches(k.id, parent) {
                self.cycle_seen = true;
            }
        }
        let mut d = self.depth_of.get(&parent).copied().unwrap_or(1);
        for k in kids {
            if !k.is_mark() {
                d = d.max(1 + self.depth_of.get(&k.id).copied().unwrap_or(1));
            }
        }
        self.depth_of.insert(parent, d);
        self.max_depth = self.max_depth.max(d);
        let e = self.children.entry(parent).or_default();
        for k in kids {
            if !k.is_mark() {
                e.push(k.id);
            }
        }
    }

    /// Execute one decoded opcode. `Err` = `pickletools.dis` would raise here.
    pub fn step(&mut self, op: &Op) -> Result<StepInfo, DisError> {
        let name = op.info.name;
        let before = op.info.before.as_bytes();
        let after = op.info.after.as_bytes();
        let mut numtopop = before.len();
        let mut err: Option<DisError> = Option::None;
        let mut info = StepInfo::default();

        // --- C03 operand rules are evaluated on the state *before* the opcode executes
        self.check_operands(op, &mut info);

        // --- mark handling (verbatim from dis)
        let mark_in_before = before.contains(&b'M');
        let mut slice: Vec<Slot> = Vec::new();
        let mut mark_popped = false;
        if mark_in_before || (name == "POP" && self.stack.last().is_some_and(|s| s.is_mark())) {
            if self.markstack > 0 {
                self.markstack -= 1;
                // pop everything at and after the topmost markobject
                loop {
                    match self.stack.last() {
                        Option::None => return Err(DisError::DisCrash),
                        Some(s) if s.is_mark() => break,
                        Some(_) => slice.push(self.stack.pop().unwrap()),
                    }
                }
                self.stack.pop();
                mark_popped = true;
                slice.reverse();
                numtopop = before.iter().position(|&c| c == b'M').unwrap_or(0);
            } else {
                err = Some(DisError::NoMark);
            }
        }

        // --- memo usage
        let mut get_slot: Option<Slot> = Option::None;
        match name {
            "PUT" | "BINPUT" | "LONG_BINPUT" | "MEMOIZE" => {
                let idx = if name == "MEMOIZE" {
                    Some(self.memo.len() as i128)
                } else {
                    memo_key(op)
                };
                // a non-integer argument cannot come out of the lexer for these opcodes except BigInt
                let idx = idx.unwrap_or(i128::MAX);
                if self.memo.contains_key(&idx) && !(self.lenient_memo || self.lenient_redefine) {
                    err = Some(DisError::PutRedefine);
                } else if self.stack.is_empty() {
                    if self.lenient_memo && name != "MEMOIZE" {
                        self.memo_errors.push(DisError::PutOnEmpty);
                    } else {
                        err = Some(DisError::PutOnEmpty);
                    }
                } else if self.stack.last().unwrap().is_mark() {
                    if self.lenient_memo && name != "MEMOIZE" {
                        self.memo_errors.push(DisError::PutOnMark);
                    } else {
                        err = Some(DisError::PutOnMark);
                    }
                } else {
                    if self.memo.contains_key(&idx) {
                        self.memo_errors.push(DisError::PutRedefine);
                    }
                    let top = *self.stack.last().unwrap();
                    self.memo.insert(idx, top);
                }
            }
            "GET" | "BINGET" | "LONG_BINGET" => match memo_key(op).and_then(|k| self.memo.get(&k)) {
                Some(s) => get_slot = Some(*s),
                Option::None => {
                    if self.lenient_memo {
                        self.memo_errors.push(DisError::GetUndefined);
                        let a = self.fresh(Kind::Any);
                        get_slot = Some(a);
                    } else {
                        err = Some(DisError::GetUndefined)
                    }
                }
            },
            _ => {}
        }

        if let Some(e) = err {
            return Err(e);
        }

        // --- stack effects
        if self.stack.len() < numtopop {
            return Err(DisError::Underflow {
                need: numtopop,
                have: self.stack.len(),
            });
        }
        let popped: Vec<Slot> = self.stack.split_off(self.stack.len() - numtopop);
        if after.contains(&b'M') {
            self.markstack += 1;
        }
        let pushed = self.decorate(op, &popped, &slice, mark_popped, get_slot);
        debug_assert_eq!(pushed.len(), after.len(), "{}", name);
        self.stack.extend(pushed);
        Ok(info)
    }

    /// log2 of the size of the largest object reachable from the stack or the memo when shared
    /// children are unfolded once per path (a tree walk without memoisation visits that many nodes);
    /// only meaningful with `track_graph`
    pub fn unfolded_log2(&self) -> u32 {
        fn size(id: u32, ch: &HashMap<u32, Vec<u32>>, memo: &mut HashMap<u32, f64>, depth: u32) -> f64 {
            if let Some(v) = memo.get(&id) {
                return *v;
            }
            if depth > 20_000 {
                return 1.0;
            }
            let mut s = 1.0f64;
            if let Some(c) = ch.get(&id) {
                for k in c {
                    s += size(*k, ch, memo, depth + 1);
                }
            }
            memo.insert(id, s);
            s
        }
        let mut memo = HashMap::new();
        let mut best = 1.0f64;
        for s in self.stack.iter().chain(self.memo.values()) {
            if !s.is_mark() {
                best = best.max(size(s.id, &self.children, &mut memo, 0));
            }
        }
        best.log2() as u32
    }

    /// after STOP
    pub fn finish(&self) -> Result<(), DisError> {
        if !self.stack.is_empty() {
            return Err(DisError::StopDepth { left: self.stack.len() });
        }
        Ok(())
    }

    /// kinds/identities of the slots an opcode pushes; the *number* of slots is fixed by the
    /// pickletools table (`after`), this only labels them.
    fn decorate(
        &mut self,
        op: &Op,
        popped: &[Slot],
        slice: &[Slot],
        _mark_popped: bool,
        get_slot: Option<Slot>,
    ) -> Vec<Slot> {
        use Kind::*;
        let name = op.info.name;
        // a popped slot that is really a markobject loses its mark-ness when pushed back:
        // dis pushes the type descriptors of `stack_after`, never markobject
        let keep = |m: &mut Machine, s: Slot, fallback: Kind| -> Slot {
            if s.is_mark() {
                m.fresh(fallback)
            } else {
                s
            }
        };
        match name {
            "INT" => {
                let k = if matches!(op.arg, Arg::Bool(_)) { Bool } else { Int };
                vec![self.fresh(k)]
            }
            "BININT" | "BININT1" | "BININT2" | "LONG" | "LONG1" | "LONG4" => vec![self.fresh(Int)],
            "STRING" | "BINSTRING" | "SHORT_BINSTRING" => vec![self.fresh(LegacyStr)],
            "BINBYTES" | "SHORT_BINBYTES" | "BINBYTES8" => vec![self.fresh(Bytes)],
            "BYTEARRAY8" => vec![self.fresh(ByteArray)],
            "NEXT_BUFFER" => vec![self.fresh(Buffer)],
            "READONLY_BUFFER" => vec![keep(self, popped[0], Buffer)],
            "NONE" => vec![self.fresh(None)],
            "NEWTRUE" | "NEWFALSE" => vec![self.fresh(Bool)],
            "UNICODE" | "SHORT_BINUNICODE" | "BINUNICODE" | "BINUNICODE8" => vec![self.fresh(Str)],
            "FLOAT" | "BINFLOAT" => vec![self.fresh(Float)],
            "EMPTY_LIST" => vec![self.fresh(List)],
            "APPEND" => {
                let l = keep(self, popped[0], List);
                self.add_children(l.id, &popped[1..]);
                vec![l]
            }
            "APPENDS" | "SETITEMS" | "ADDITEMS" => {
                let fb = match name {
                    "APPENDS" => List,
                    "SETITEMS" => Dict,
                    _ => Set,
                };
                let l = keep(self, popped[0], fb);
                self.add_children(l.id, slice);
                vec![l]
            }
            "LIST" | "TUPLE" | "DICT" | "FROZENSET" => {
                let k = match name {
                    "LIST" => List,
                    "TUPLE" => Tuple,
                    "DICT" => Dict,
                    _ => FrozenSet,
                };
                let c = self.fresh(k);
                self.add_children(c.id, slice);
                vec![c]
            }
            "EMPTY_TUPLE" => vec![self.fresh(Tuple)],
            "TUPLE1" | "TUPLE2" | "TUPLE3" => {
                let c = self.fresh(Tuple);
                self.add_children(c.id, popped);
                vec![c]
            }
            "EMPTY_DICT" => vec![self.fresh(Dict)],
            "SETITEM" => {
                let d = keep(self, popped[0], Dict);
                self.add_children(d.id, &popped[1..]);
                vec![d]
            }
            "EMPTY_SET" => vec![self.fresh(Set)],
            "POP" | "POP_MARK" | "PUT" | "BINPUT" | "LONG_BINPUT" | "PROTO" | "STOP" | "FRAME" => vec![],
            "DUP" => {
                if popped[0].is_mark() {
                    vec![self.fresh(Any), self.fresh(Any)]
                } else if self.copy_on_alias {
                    let c = self.shallow_copy(popped[0]);
                    vec![popped[0], c]
                } else {
                    vec![popped[0], popped[0]]
                }
            }
            "MARK" => vec![self.fresh(Mark)],
            "GET" | "BINGET" | "LONG_BINGET" => {
                let g = get_slot.expect("GET without slot");
                if self.copy_on_alias && !g.is_mark() {
                    vec![self.shallow_copy(g)]
                } else {
                    vec![g]
                }
            }
            "MEMOIZE" => {
                // the PUT-family branch above already rejected a mark / empty stack
                vec![popped[0]]
            }
            "EXT1" | "EXT2" | "EXT4" | "PERSID" | "BINPERSID" => vec![self.fresh(Any)],
            "GLOBAL" | "STACK_GLOBAL" => vec![self.fresh(Global)],
            "REDUCE" | "NEWOBJ" | "NEWOBJ_EX" => {
                let o = self.fresh(Object);
                self.add_children(o.id, popped);
                vec![o]
            }
            "INST" | "OBJ" => {
                let o = self.fresh(Object);
                self.add_children(o.id, slice);
                vec![o]
            }
            "BUILD" => {
                let o = keep(self, popped[0], Object);
                self.add_children(o.id, &popped[1..]);
                vec![o]
            }
            other => panic!("machine: opcode {} not covered", other),
        }
    }

    fn at(&self, depth: usize) -> Option<Slot> {
        let n = self.stack.len();
        if depth < n {
            Some(self.stack[n - 1 - depth])
        } else {
            Option::None
        }
    }

    /// index of the topmost markobject on the stack
    fn top_mark(&self) -> Option<usize> {
        self.stack.iter().rposition(|s| s.is_mark())
    }

    /// C03: exactly the operand rules of the property statement. Missing operands (underflow,
    /// no MARK) are C01's business and are not reported here.
    fn check_operands(&self, op: &Op, info: &mut StepInfo) {
        use Kind::*;
        let name = op.info.name;
        let mut bad = |slot: &str, found: Kind| {
            info.kind_violations.push(KindViolation {
                class: format!("operand-kind({},{},{})", name, slot, found.name()),
            })
        };
        let want = |s: Option<Slot>, ok: &dyn Fn(Kind) -> bool| -> Option<Kind> {
            match s {
                Some(s) if !(ok(s.kind) || s.kind.open()) => Some(s.kind),
                _ => Option::None,
            }
        };
        let callee_ok = |k: Kind| !k.is_data();
        match name {
            "APPEND" => {
                if let Some(k) = want(self.at(1), &|k| k == List) {
                    bad("target", k)
                }
            }
            "SETITEM" => {
                if let Some(k) = want(self.at(2), &|k| k == Dict) {
                    bad("target", k)
                }
            }
            "APPENDS" | "SETITEMS" | "ADDITEMS" => {
                if let Some(m) = self.top_mark() {
                    let wantk = match name {
                        "APPENDS" => List,
                        "SETITEMS" => Dict,
                        _ => Set,
                    };
                    if m >= 1 {
                        if let Some(k) = want(Some(self.stack[m - 1]), &|k| k == wantk) {
                            bad("target", k)
                        }
                    }
                    if name == "SETITEMS" && (self.stack.len() - 1 - m) % 2 != 0 {
                        info.kind_violations.push(KindViolation {
                            class: format!("odd-pairs({})", name),
                        });
                    }
                }
            }
            "DICT" => {
                if let Some(m) = self.top_mark() {
                    if (self.stack.len() - 1 - m) % 2 != 0 {
                        info.kind_violations.push(KindViolation {
                            class: format!("odd-pairs({})", name),
                        });
                    }
                }
            }
            "STACK_GLOBAL" => {
                if let Some(k) = want(self.at(0), &|k| k == Str) {
                    bad("name", k)
                }
                if let Some(k) = want(self.at(1), &|k| k == Str) {
                    bad("module", k)
                }
            }
            "REDUCE" | "NEWOBJ" => {
                if let Some(k) = want(self.at(0), &|k| k == Tuple) {
                    bad("args", k)
                }
                if let Some(k) = want(self.at(1), &callee_ok) {
                    bad("callee", k)
                }
            }
            "NEWOBJ_EX" => {
                if let Some(k) = want(self.at(0), &|k| k == Dict) {
                    bad("kwargs", k)
                }
                if let Some(k) = want(self.at(1), &|k| k == Tuple) {
                    bad("args", k)
                }
            }
            "BUILD" => {
                if let Some(k) = want(self.at(0), &|k| k == Tuple || k == Dict) {
                    bad("state", k)
                }
                if let Some(k) = want(self.at(1), &|k| k == Object) {
                    bad("object", k)
                }
            }
            "OBJ" => {
                if let Some(m) = self.top_mark() {
                    if m + 1 < self.stack.len() {
                        if let Some(k) = want(Some(self.stack[m + 1]), &callee_ok) {
                            bad("callee", k)
                        }
                    } else {
                        info.kind_violations.push(KindViolation {
                            class: "operand-kind(OBJ,callee,missing)".into(),
                        });
                    }
                }
            }
            "DUP" => {
                if self.at(0).is_some_and(|s| s.is_mark()) {
                    info.kind_violations.push(KindViolation {
                        class: "dup-mark".into(),
                    });
                }
            }
            _ => {}
        }
    }
}

/// Result of running a whole decoded stream through R2/R3.
pub struct Verdict {
    /// first error that stops `dis` (in lenient mode: first non-memo error)
    pub dis_error: Option<(usize, DisError)>,
    /// memo errors passed over in lenient mode
    pub memo_errors: Vec<(usize, DisError)>,
    pub kind_violations: Vec<(usize, KindViolation)>,
    pub cycle_seen: bool,
    /// deepest nesting of the object graph (only with track_graph)
    pub max_depth: u32,
    pub max_memo: usize,
    pub gets_with_2plus_keys: usize,
    pub steps: usize,
}

impl Verdict {
    /// would `pickletools.dis` accept? (strict semantics, whatever mode was used to run)
    pub fn dis_accepts(&self) -> bool {
        self.dis_error.is_none() && self.memo_errors.is_empty()
    }
    /// index and error of the first thing `dis` would complain about
    pub fn first_dis_error(&self) -> Option<(usize, DisError)> {
        match (&self.dis_error, self.memo_errors.first()) {
            (Some(d), Some(m)) => Some(if m.0 <= d.0 { m.clone() } else { d.clone() }),
            (Some(d), Option::None) => Some(d.clone()),
            (Option::None, Some(m)) => Some(m.clone()),
            _ => Option::None,
        }
    }
}

pub fn run(ops: &[Op], lenient_memo: bool, track_graph: bool) -> Verdict {
    let mut m = Machine::new();
    m.track_graph = track_graph;
    m.lenient_memo = lenient_memo;
    let mut v = Verdict {
        dis_error: Option::None,
        memo_errors: Vec::new(),
        kind_violations: Vec::new(),
        cycle_seen: false,
        max_depth: 0,
        max_memo: 0,
        gets_with_2plus_keys: 0,
        steps: 0,
    };
    for (i, op) in ops.iter().enumerate() {
        if matches!(op.info.name, "GET" | "BINGET" | "LONG_BINGET") && m.memo.len() >= 2 {
            v.gets_with_2plus_keys += 1;
        }
        let before = m.memo_errors.len();
        match m.step(op) {
            Ok(info) => {
                for k in info.kind_violations {
                    v.kind_violations.push((i, k));
                }
                for e in m.memo_errors.drain(before..) {
                    v.memo_errors.push((i, e));
                }
            }
            Err(e) => {
                v.dis_error = Some((i, e));
                break;
            }
        }
        v.steps += 1;
        v.max_memo = v.max_memo.max(m.memo.len());
    }
    if v.dis_error.is_none() {
        if let Err(e) = m.finish() {
            v.dis_error = Some((ops.len().saturating_sub(1), e));
        }
    }
    v.cycle_seen = m.cycle_seen;
    v.max_depth = m.max_depth;
    v
}
