//! Executes a `Scenario` against the *real* generator (library built from /repo's working tree
//! with feature `verif`), with Spy-wrapped real mutators and the trace recorder installed.

use crate::desc::{Config, Entropy, HOp, Scenario, MUT_NAMES};
use pickle_fuzzer::verif::{self, Event, GenerationSource, Recorder, TraceLevel};
use pickle_fuzzer::{EmissionSnapshot, Generator, Mutator, MutatorKind, Version};
use std::panic::{catch_unwind, AssertUnwindSafe};
use std::sync::{Arc, Mutex};

#[derive(Clone, Debug, PartialEq)]
pub enum SpyVal {
    Int(i32),
    Long(i64),
    Float(f64),
    Str(String),
    Bytes(Vec<u8>),
    Memo(usize),
}

impl SpyVal {
    pub fn kind(&self) -> &'static str {
        match self {
            SpyVal::Int(_) => "int",
            SpyVal::Long(_) => "long",
            SpyVal::Float(_) => "float",
            SpyVal::Str(_) => "str",
            SpyVal::Bytes(_) => "bytes",
            SpyVal::Memo(_) => "memo",
        }
    }
}

#[derive(Clone, Debug)]
pub enum SpyRec {
    /// one consultation of mutator `mi` (index in the registered list) at a value site
    Value {
        mi: u8,
        kind: u8,
        input: SpyVal,
        out: Option<SpyVal>,
        rate: f64,
    },
    /// one `post_process` call
    Post {
        mi: u8,
        kind: u8,
        fired: bool,
        snapshot_len: usize,
        delta_first: Option<u8>,
        old_tail: Vec<u8>,
        new_tail: Vec<u8>,
        /// bytes before `snapshot_len` were modified (must never happen)
        prefix_changed: bool,
        rate: f64,
    },
}

#[derive(Debug)]
pub struct Spy {
    pub inner: Box<dyn Mutator>,
    pub mi: u8,
    pub kind: u8,
    pub log: Arc<Mutex<Vec<SpyRec>>>,
}

impl Spy {
    fn rec(&self, input: SpyVal, out: Option<SpyVal>, rate: f64) {
        self.log.lock().unwrap().push(SpyRec::Value {
            mi: self.mi,
            kind: self.kind,
            input,
            out,
            rate,
        });
    }
}

impl Mutator for Spy {
    fn name(&self) -> &str {
        self.inner.name()
    }
    fn mutate_int(&self, v: i32, s: &mut GenerationSource, r: f64) -> Option<i32> {
        let out = self.inner.mutate_int(v, s, r);
        self.rec(SpyVal::Int(v), out.map(SpyVal::Int), r);
        out
    }
    fn mutate_long(&self, v: i64, s: &mut GenerationSource, r: f64) -> Option<i64> {
        let out = self.inner.mutate_long(v, s, r);
        self.rec(SpyVal::Long(v), out.map(SpyVal::Long), r);
        out
    }
    fn mutate_float(&self, v: f64, s: &mut GenerationSource, r: f64) -> Option<f64> {
        let out = self.inner.mutate_float(v, s, r);
        self.rec(SpyVal::Float(v), out.map(SpyVal::Float), r);
        out
    }
    fn mutate_string(&self, v: String, s: &mut GenerationSource, r: f64) -> Option<String> {
        let out = self.inner.mutate_string(v.clone(), s, r);
        self.rec(SpyVal::Str(v), out.clone().map(SpyVal::Str), r);
        out
    }
    fn mutate_bytes(&self, v: Vec<u8>, s: &mut GenerationSource, r: f64) -> Option<Vec<u8>> {
        let out = self.inner.mutate_bytes(v.clone(), s, r);
        self.rec(SpyVal::Bytes(v), out.clone().map(SpyVal::Bytes), r);
        out
    }
    fn mutate_memo_index(&self, v: usize, s: &mut GenerationSource, r: f64) -> Option<usize> {
        let out = self.inner.mutate_memo_index(v, s, r);
        self.rec(SpyVal::Memo(v), out.map(SpyVal::Memo), r);
        out
    }
    fn is_unsafe(&self) -> bool {
        self.inner.is_unsafe()
    }
    fn post_process(&self, snap: &EmissionSnapshot, out: &mut Vec<u8>, s: &mut GenerationSource, r: f64) -> bool {
        let cut = snap.output_len.min(out.len());
        let old_tail = out[cut..].to_vec();
        // the bytes before the just-emitted opcode must stay untouched; comparing the whole prefix
        // on every call would make long runs quadratic, so a 256-byte window before the cut is
        // compared (a rewrite that starts too early lands in it)
        let win = cut.saturating_sub(256);
        let window: Vec<u8> = out[win..cut].to_vec();
        let fired = self.inner.post_process(snap, out, s, r);
        let cut2 = snap.output_len.min(out.len());
        let new_tail = out[cut2..].to_vec();
        let prefix_changed = cut2 != cut
            || out[win.min(cut2)..cut2] != window[..];
        let changed = new_tail != old_tail || prefix_changed;
        // record only what matters: a firing, or a silent modification
        if fired || changed {
            self.log.lock().unwrap().push(SpyRec::Post {
                mi: self.mi,
                kind: self.kind,
                fired,
                snapshot_len: snap.output_len,
                delta_first: snap.output_delta.first().copied(),
                old_tail,
                new_tail,
                prefix_changed,
                rate: r,
            });
        }
        fired
    }
}

pub fn mutator_kind(idx: u8) -> MutatorKind {
    match idx {
        0 => MutatorKind::Bitflip,
        1 => MutatorKind::Boundary,
        2 => MutatorKind::Offbyone,
        3 => MutatorKind::Stringlen,
        4 => MutatorKind::Character,
        5 => MutatorKind::Memoindex,
        6 => MutatorKind::Typeconfusion,
        _ => panic!("mutator index {}", idx),
    }
}

pub fn version(p: u8) -> Version {
    Version::try_from(p as usize).expect("protocol 0..5")
}

/// the mutator list of a configuration (each wrapped in a recording Spy when `spy` is given)
pub fn make_mutators(kinds: &[u8], unsafe_m: bool, spy: &Option<Arc<Mutex<Vec<SpyRec>>>>) -> Vec<Box<dyn Mutator>> {
    kinds
        .iter()
        .enumerate()
        .map(|(i, &k)| {
            let inner = mutator_kind(k).create(unsafe_m);
            match spy {
                Some(log) => Box::new(Spy {
                    inner,
                    mi: i as u8,
                    kind: k,
                    log: log.clone(),
                }) as Box<dyn Mutator>,
                None => inner,
            }
        })
        .collect()
}

/// Build the real generator for a configuration. `spy`: wrap every mutator in a recording Spy.
pub fn build_generator(c: &Config, seed: Option<u64>, spy: Option<Arc<Mutex<Vec<SpyRec>>>>) -> Generator {
    let mut g = Generator::new(version(c.protocol));
    if !(c.min_opcodes == 60 && c.max_opcodes == 300) {
        // both ways of setting the range are part of the API: the pair builder, or the two single
        // builders (chosen by the configuration itself, so a replay does the same)
        if (c.min_opcodes + c.max_opcodes) % 3 == 0 {
            g = g.with_max_opcodes(c.max_opcodes).with_min_opcodes(c.min_opcodes);
        } else {
            g = g.with_opcode_range(c.min_opcodes, c.max_opcodes);
        }
    }
    if let Some(b) = c.bufsize {
        g = g.with_buffer_size(b);
    }
    if let Some(s) = seed {
        g = g.with_seed(s);
    }
    if !c.mutators.is_empty() {
        // lists of odd length are registered one by one (`with_mutator`), the others at once
        let ms = make_mutators(&c.mutators, c.unsafe_mutations, &spy);
        if ms.len() % 2 == 1 {
            for m in ms {
                g = g.with_mutator(m);
            }
        } else {
            g = g.with_mutators(ms);
        }
    }
    if c.rate_via_field {
        g.mutation_rate = c.rate;
    } else if c.rate != 0.1 {
        g = g.with_mutation_rate(c.rate);
    }
    // options are only set when they differ from the documented defaults (false), so that the
    // library's own defaults stay under test
    if c.unsafe_mutations {
        g = g.with_unsafe_mutations(true);
    }
    if c.allow_ext {
        g = g.with_ext_opcodes(true);
    }
    if c.allow_buffer {
        g = g.with_buffer_opcodes(true);
    }
    g
}

#[derive(Clone, Debug)]
pub enum Outcome {
    Ok(Vec<u8>),
    Err(String),
    Panic(String),
}

impl Outcome {
    pub fn bytes(&self) -> Option<&[u8]> {
        match self {
            Outcome::Ok(b) => Some(b),
            _ => None,
        }
    }
}

/// what one generation call left behind
#[derive(Clone, Debug)]
pub struct CallRecord {
    /// index of the operation in the history
    pub hop: usize,
    pub outcome: Outcome,
    pub events: Vec<Event>,
    pub spy: Vec<SpyRec>,
    /// configuration in force for this call (history may have changed range / rate)
    pub config: Config,
    pub entropy: Entropy,
}

impl CallRecord {
    pub fn target(&self) -> Option<usize> {
        self.events.iter().find_map(|e| match e {
            Event::Phase {
                phase: verif::Phase::Target,
                value,
                ..
            } => Some(*value),
            _ => None,
        })
    }
    pub fn entropy_left(&self) -> Option<usize> {
        self.events.iter().rev().find_map(|e| match e {
            Event::Phase {
                phase: verif::Phase::Finish,
                entropy_left,
                ..
            } => *entropy_left,
            _ => None,
        })
    }
    /// bytes-mode run in which the script ran out (fault `cut` actually fired)
    pub fn exhausted(&self) -> bool {
        self.entropy.is_bytes() && self.entropy_left() == Some(0)
    }
}

thread_local! {
    static LAST_PANIC: std::cell::RefCell<Option<String>> = const { std::cell::RefCell::new(None) };
}

/// install once per process: panics are recorded per thread instead of printed
pub fn install_quiet_panic_hook() {
    std::panic::set_hook(Box::new(|info| {
        let msg = if let Some(s) = info.payload().downcast_ref::<&str>() {
            s.to_string()
        } else if let Some(s) = info.payload().downcast_ref::<String>() {
            s.clone()
        } else {
            "panic".to_string()
        };
        let loc = info
            .location()
            .map(|l| format!(" at {}:{}", l.file(), l.line()))
            .unwrap_or_default();
        LAST_PANIC.with(|c| *c.borrow_mut() = Some(format!("{}{}", msg, loc)));
    }));
}

pub fn take_panic() -> String {
    LAST_PANIC.with(|c| c.borrow_mut().take()).unwrap_or_else(|| "panic".into())
}

#[derive(Clone, Copy, Debug, PartialEq, Eq)]
pub enum Trace {
    Off,
    Light,
    Full,
    /// full snapshots every n-th opcode only
    Sampled(usize),
}

/// Resolve a steering recipe into a concrete fuzzer script (executes the generator on growing
/// prefixes, in this process); None when the generator does not offer the program.
pub fn resolve_steer(sc: &Scenario) -> Option<Scenario> {
    let st = sc.steer.as_ref()?;
    let compact = st.ops.iter().any(|t| t.contains('*'));
    let (script, mut n) = if compact {
        // scenarios that differ only in their tail share the steered program: steer it once per
        // process (the first thread computes, the others wait for it)
        use std::sync::OnceLock;
        type Slot = Arc<OnceLock<Option<Vec<u8>>>>;
        static CACHE: OnceLock<Mutex<std::collections::HashMap<String, Slot>>> = OnceLock::new();
        let key = format!("{}|{}", sc.config.protocol, st.ops.join(" "));
        let slot: Slot = {
            let mut g = CACHE.get_or_init(|| Mutex::new(std::collections::HashMap::new())).lock().unwrap();
            if g.len() > 512 {
                g.clear();
            }
            g.entry(key).or_default().clone()
        };
        let script = slot.get_or_init(|| crate::synth::steer_tokens(sc.config.protocol, &st.ops)).clone();
        (script, crate::synth::token_ops(&st.ops))
    } else {
        let ops: Vec<&'static str> = st.ops.iter().filter_map(|n| crate::lexer::by_name(n).map(|i| i.name)).collect();
        let prog = crate::synth::Program { ops };
        let n = prog.ops.len();
        (crate::synth::steer(sc.config.protocol, &prog), n)
    };
    let mut script = script?;
    if let Some(b) = st.tail {
        script.push(b);
        n += 1;
    }
    if let Some((k, sd)) = st.free {
        use rand::{RngCore, SeedableRng};
        let mut rng = rand_chacha::ChaCha8Rng::seed_from_u64(sd);
        let mut tail = vec![0u8; k * 6];
        rng.fill_bytes(&mut tail);
        script.extend_from_slice(&tail);
        n += k;
    }
    let mut resolved = sc.clone();
    resolved.steer = None;
    resolved.config.min_opcodes = n;
    resolved.config.max_opcodes = n;
    resolved.history = vec![HOp::Gen(Entropy::Bytes(script))];
    Some(resolved)
}

/// Execute a scenario on one fresh generator, on the calling thread.
pub fn run_scenario(sc: &Scenario, trace: Trace, spy: bool) -> Vec<CallRecord> {
    if sc.steer.is_some() {
        return match resolve_steer(sc) {
            Some(resolved) => run_scenario(&resolved, trace, spy),
            None => vec![],
        };
    }
    verif::set_hash_key(sc.hash_key);
    let log = Arc::new(Mutex::new(Vec::new()));
    // seed: the generator takes the seed of the first rand-mode call; later rand calls with a
    // different seed set the pub field (that is what a caller re-seeding the generator does)
    let first_seed = sc.history.iter().find_map(|h| match h {
        HOp::Gen(Entropy::Rand(s)) => Some(*s),
        _ => None,
    });
    let mut cfg = sc.config.clone();
    let spy_log = if spy { Some(log.clone()) } else { None };
    let mut g = build_generator(&cfg, first_seed, spy_log.clone());
    let mut out = Vec::new();
    for (i, h) in sc.history.iter().enumerate() {
        match h {
            HOp::Reset => g.reset(),
            HOp::SetRange(a, b) => {
                g.min_opcodes = *a;
                g.max_opcodes = *b;
                cfg.min_opcodes = *a;
                cfg.max_opcodes = *b;
            }
            HOp::SetFlags(e, b) => {
                g.allow_ext_opcodes = *e;
                g.allow_buffer_opcodes = *b;
                cfg.allow_ext = *e;
                cfg.allow_buffer = *b;
            }
            HOp::SetRate(r) => {
                g.mutation_rate = *r;
                cfg.rate = *r;
                cfg.rate_via_field = true;
            }
            HOp::SetUnsafe(u) => {
                // what a caller switching modes does: the flag through the pub field and the
                // mutators re-created for the new mode
                g.unsafe_mutations = *u;
                cfg.unsafe_mutations = *u;
                g.mutators = make_mutators(&cfg.mutators, *u, &spy_log);
            }
            HOp::SetMutators(m) => {
                cfg.mutators = m.clone();
                g.mutators = make_mutators(&cfg.mutators, cfg.unsafe_mutations, &spy_log);
            }
            HOp::SetProtocol(p) => {
                g.state.version = version(*p);
                cfg.protocol = *p;
            }
            HOp::Gen(e) => {
                match trace {
                    Trace::Off => {}
                    Trace::Light => verif::install_recorder(Recorder::new(TraceLevel::Light, 1)),
                    Trace::Full => verif::install_recorder(Recorder::new(TraceLevel::Full, 1)),
                    Trace::Sampled(n) => verif::install_recorder(Recorder::new(TraceLevel::Full, n)),
                }
                log.lock().unwrap().clear();
                let res = catch_unwind(AssertUnwindSafe(|| match e {
                    Entropy::Rand(s) => {
                        g.seed = Some(*s);
                        g.generate()
                    }
                    Entropy::Bytes(b) => g.generate_from_arbitrary(b),
                }));
                let events = verif::take_recorder().map(|r| r.events).unwrap_or_default();
                let outcome = match res {
                    Ok(Ok(b)) => Outcome::Ok(b),
                    Ok(Err(e)) => Outcome::Err(format!("{}", e)),
                    Err(_) => Outcome::Panic(take_panic()),
                };
                let poisoned = matches!(outcome, Outcome::Panic(_));
                out.push(CallRecord {
                    hop: i,
                    outcome,
                    events,
                    spy: std::mem::take(&mut *log.lock().unwrap()),
                    config: cfg.clone(),
                    entropy: e.clone(),
                });
                if poisoned {
                    // a generator that panicked mid-call is in an unspecified state: stop here
                    break;
                }
            }
        }
    }
    out
}

pub fn mut_name(kind: u8) -> &'static str {
    MUT_NAMES[kind as usize]
}
