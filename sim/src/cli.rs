//! `cli` scenario (DESIGN §2.3, C13): the real `pickle-fuzzer` binary (built hook-free from the
//! working tree), `scripts/action-run.sh` and the real `_native` Python extension, each compared
//! with the hooked library called with the corresponding configuration. Filesystem faults are
//! planted by path (ENOSPC via a symlink to /dev/full, EISDIR via a directory named k.pkl, ENOENT
//! via a dangling symlink, ENOTDIR via an output "directory" that is a file), so they do not depend
//! on the rayon schedule, which the simulator does not control; worker counts are sampled.

use crate::desc::{self, Config, Entropy, HOp, Scenario, MUT_NAMES};
use crate::engine::{self, Stats};
use crate::exec::{self, Trace};
use crate::props::Violation;
use pickle_fuzzer::MutatorKind;
use rand::{Rng, RngCore, SeedableRng};
use rand_chacha::ChaCha8Rng;
use serde_json::{json, Value};
use std::path::PathBuf;
use std::process::{Command, Stdio};

fn repo() -> String {
    std::env::var("PF_REPO").unwrap_or_else(|_| "/repo".to_string())
}

pub fn cli_bin() -> PathBuf {
    PathBuf::from(format!("{}/target/cli/release/pickle-fuzzer", engine::verif_root()))
}

pub fn pypkg_dir() -> PathBuf {
    PathBuf::from(format!("{}/target/pypkg", engine::verif_root()))
}

/// (re)build the hook-free CLI binary and the Python extension from the working tree
pub fn build_front_ends() -> Result<(), String> {
    let root = engine::verif_root();
    let run = |args: &[&str]| -> Result<(), String> {
        let o = Command::new("cargo")
            .args(args)
            .current_dir(repo())
            .env("CARGO_NET_OFFLINE", "true")
            .output()
            .map_err(|e| format!("cargo: {}", e))?;
        if !o.status.success() {
            return Err(format!("cargo {:?} failed:\n{}", args, String::from_utf8_lossy(&o.stderr).lines().rev().take(25).collect::<Vec<_>>().join("\n")));
        }
        Ok(())
    };
    run(&["build", "--release", "--offline", "--bin", "pickle-fuzzer", "--target-dir", &format!("{}/target/cli", root)])?;
    run(&["build", "--release", "--offline", "--lib", "--features", "python-bindings", "--target-dir", &format!("{}/target/py", root)])?;
    let pkg = pypkg_dir();
    let pf = pkg.join("pickle_fuzzer");
    let ath = pkg.join("atheris");
    std::fs::create_dir_all(&pf).map_err(|e| e.to_string())?;
    std::fs::create_dir_all(&ath).map_err(|e| e.to_string())?;
    for f in ["__init__.py", "fuzzer.py"] {
        std::fs::copy(format!("{}/python/pickle_fuzzer/{}", repo(), f), pf.join(f)).map_err(|e| format!("copy {}: {}", f, e))?;
    }
    std::fs::copy(format!("{}/target/py/release/libpickle_fuzzer.so", root), pf.join("_native.so")).map_err(|e| format!("copy _native.so: {}", e))?;
    // stub: atheris itself is not under test (and is not installed for python3)
    std::fs::write(
        ath.join("__init__.py"),
        "# stub of atheris for the C13 check: Setup() remembers the callback, Fuzz() feeds it INPUTS\nINPUTS = []\n_cb = None\ndef instrument_func(f):\n    return f\ndef Setup(argv, cb, *a, **k):\n    global _cb\n    _cb = cb\ndef Fuzz(*a, **k):\n    for d in list(INPUTS):\n        _cb(d)\n",
    )
    .map_err(|e| e.to_string())?;
    Ok(())
}

#[derive(Clone, Debug, PartialEq)]
pub struct Opts {
    pub protocol: Option<u8>,
    pub seed: Option<u64>,
    pub min: Option<usize>,
    pub max: Option<usize>,
    /// names as typed (may contain "all")
    pub mutators: Vec<String>,
    /// rate as typed on the command line
    pub rate: Option<String>,
    pub unsafe_m: bool,
    pub allow_ext: bool,
    pub allow_buffer: bool,
    /// `--mutators a b` (one flag, several values) instead of repeated flags
    pub list_style: bool,
}

impl Opts {
    pub fn to_json(&self) -> Value {
        json!({"protocol": self.protocol, "seed": self.seed.map(|s| s.to_string()), "min": self.min, "max": self.max, "mutators": self.mutators,
               "rate": self.rate, "unsafe": self.unsafe_m, "allow_ext": self.allow_ext, "allow_buffer": self.allow_buffer, "list_style": self.list_style})
    }
    pub fn from_json(v: &Value) -> Option<Opts> {
        Some(Opts {
            protocol: v["protocol"].as_u64().map(|x| x as u8),
            seed: v["seed"].as_str().and_then(|s| s.parse().ok()),
            min: v["min"].as_u64().map(|x| x as usize),
            max: v["max"].as_u64().map(|x| x as usize),
            mutators: v["mutators"].as_array()?.iter().filter_map(|x| x.as_str().map(|s| s.to_string())).collect(),
            rate: v["rate"].as_str().map(|s| s.to_string()),
            unsafe_m: v["unsafe"].as_bool()?,
            allow_ext: v["allow_ext"].as_bool()?,
            allow_buffer: v["allow_buffer"].as_bool()?,
            list_style: v["list_style"].as_bool().unwrap_or(false),
        })
    }

    /// argv without the output target
    pub fn argv(&self) -> Vec<String> {
        let mut a = vec![];
        if let Some(p) = self.protocol {
            a.push("--protocol".into());
            a.push(p.to_string());
        }
        if let Some(s) = self.seed {
            a.push("--seed".into());
            a.push(s.to_string());
        }
        if let Some(m) = self.min {
            a.push("--min-opcodes".into());
            a.push(m.to_string());
        }
        if let Some(m) = self.max {
            a.push("--max-opcodes".into());
            a.push(m.to_string());
        }
        if let Some(r) = &self.rate {
            a.push("--mutation-rate".into());
            a.push(r.clone());
        }
        if self.unsafe_m {
            a.push("--unsafe-mutations".into());
        }
        if self.allow_ext {
            a.push("--allow-ext".into());
        }
        if self.allow_buffer {
            a.push("--allow-buffer".into());
        }
        if !self.mutators.is_empty() {
            if self.list_style {
                a.push("--mutators".into());
                a.extend(self.mutators.iter().cloned());
            } else {
                for m in &self.mutators {
                    a.push("--mutators".into());
                    a.push(m.clone());
                }
            }
        }
        a
    }

    /// environment for scripts/action-run.sh
    pub fn action_env(&self, rng_style: u64) -> Vec<(String, String)> {
        let mut e = vec![];
        if let Some(p) = self.protocol {
            e.push(("INPUT_PROTOCOL".into(), p.to_string()));
        }
        if let Some(s) = self.seed {
            e.push(("INPUT_SEED".into(), s.to_string()));
        }
        if let Some(m) = self.min {
            e.push(("INPUT_MIN_OPCODES".into(), m.to_string()));
        }
        if let Some(m) = self.max {
            e.push(("INPUT_MAX_OPCODES".into(), m.to_string()));
        }
        if !self.mutators.is_empty() {
            let sep = match rng_style % 3 {
                0 => ",",
                1 => " ",
                _ => ", ",
            };
            e.push(("INPUT_MUTATORS".into(), self.mutators.join(sep)));
        }
        if let Some(r) = &self.rate {
            e.push(("INPUT_MUTATION_RATE".into(), r.clone()));
        }
        let t = ["true", "1", "yes", "True"][(rng_style % 4) as usize];
        e.push(("INPUT_UNSAFE_MUTATIONS".into(), if self.unsafe_m { t.into() } else { "false".into() }));
        e.push(("INPUT_ALLOW_EXT".into(), if self.allow_ext { t.into() } else { "false".into() }));
        e.push(("INPUT_ALLOW_BUFFER".into(), if self.allow_buffer { t.into() } else { "".into() }));
        e
    }

    /// the library configuration that corresponds to these options (None: not determined —
    /// no seed, or neither protocol nor seed)
    pub fn library_scenario(&self) -> Option<(Scenario, Option<String>)> {
        let seed = self.seed?;
        let protocol = match self.protocol {
            Some(p) => p,
            None => (seed % 6) as u8,
        };
        let mut note = None;
        let mut kinds: Vec<u8> = vec![];
        if self.mutators.iter().any(|m| m == "all") {
            // order of `all` is an implementation detail that fixes the bytes: taken from the
            // library; its *content* is checked against the documented set
            let lib: Vec<MutatorKind> = MutatorKind::all_mutators(self.unsafe_m);
            for k in &lib {
                let name = format!("{:?}", k).to_lowercase();
                if let Some(i) = MUT_NAMES.iter().position(|n| *n == name) {
                    kinds.push(i as u8);
                }
            }
            let mut want: Vec<u8> = vec![0, 1, 2, 3, 4, 6];
            if self.unsafe_m {
                want.push(5);
            }
            let mut got = kinds.clone();
            got.sort_unstable();
            want.sort_unstable();
            if got != want {
                note = Some(format!("`all` expands to {:?}, documented set is {:?}", got.iter().map(|&i| MUT_NAMES[i as usize]).collect::<Vec<_>>(), want.iter().map(|&i| MUT_NAMES[i as usize]).collect::<Vec<_>>()));
            }
        } else {
            for m in &self.mutators {
                kinds.push(MUT_NAMES.iter().position(|n| n == m)? as u8);
            }
        }
        let rate: f64 = match &self.rate {
            Some(r) => r.parse().ok()?,
            None => 0.1,
        };
        let cfg = Config {
            protocol,
            min_opcodes: self.min.unwrap_or(60),
            max_opcodes: self.max.unwrap_or(300),
            mutators: kinds,
            rate,
            rate_via_field: false,
            unsafe_mutations: self.unsafe_m,
            allow_ext: self.allow_ext,
            allow_buffer: self.allow_buffer,
            bufsize: None,
        };
        Some((Scenario::solo(cfg, Entropy::Rand(seed)), note))
    }

    pub fn summary(&self) -> String {
        let mut s = vec![];
        if self.protocol.is_some() {
            s.push("protocol");
        }
        if self.seed.is_some() {
            s.push("seed");
        }
        if self.min.is_some() || self.max.is_some() {
            s.push("range");
        }
        if !self.mutators.is_empty() {
            s.push(if self.mutators.iter().any(|m| m == "all") { "mutators=all" } else { "mutators" });
        }
        if self.rate.is_some() {
            s.push("rate");
        }
        if self.unsafe_m {
            s.push("unsafe");
        }
        if self.allow_ext {
            s.push("ext");
        }
        if self.allow_buffer {
            s.push("buffer");
        }
        s.join("+")
    }
}

pub fn expected_bytes(o: &Opts) -> Option<(Vec<u8>, Option<String>)> {
    let (sc, note) = o.library_scenario()?;
    let recs = exec::run_scenario(&sc, Trace::Off, false);
    recs.first()?.outcome.bytes().map(|b| (b.to_vec(), note))
}

pub fn draw_opts(rng: &mut ChaCha8Rng) -> Opts {
    let seed = if rng.random_range(0..10) < 9 { Some(rng.random::<u64>() >> rng.random_range(0..64)) } else { None };
    let protocol = if rng.random_range(0..3) > 0 { Some(rng.random_range(0..6u8)) } else { None };
    let (min, max) = match rng.random_range(0..6) {
        0 => (None, None),
        1 => (Some(rng.random_range(0..40)), None),
        2 => (None, Some(rng.random_range(61..200))),
        3 => (Some(rng.random_range(0..30)), Some(rng.random_range(30..120))),
        4 => {
            let a = rng.random_range(1..80);
            (Some(a), Some(rng.random_range(0..=a)))
        }
        _ => (Some(0), Some(rng.random_range(0..3))),
    };
    let mut mutators: Vec<String> = vec![];
    match rng.random_range(0..10) {
        0..=2 => {}
        3..=4 => mutators.push("all".into()),
        5 => {
            mutators.push(MUT_NAMES[rng.random_range(0..7)].into());
            mutators.push("all".into());
        }
        _ => {
            // any order; one list in three may repeat a name (the library registers what it is given,
            // in the order given - so must the front ends)
            let n = rng.random_range(1..=4);
            let repeats = rng.random_range(0..3) == 0;
            for _ in 0..n {
                let m = MUT_NAMES[rng.random_range(0..7)].to_string();
                if repeats || !mutators.contains(&m) {
                    mutators.push(m);
                }
            }
            if repeats && mutators.len() >= 2 {
                let first = mutators[0].clone();
                mutators.push(first);
            }
        }
    }
    // `--unsafe-mutations` / `--mutation-rate` without `--mutators` have no documented
    // "corresponding configuration": excluded rather than guessed (DESIGN §5 C13)
    let has_m = !mutators.is_empty();
    let rate = if has_m && rng.random_range(0..3) > 0 {
        Some(match rng.random_range(0..7) {
            0 => "0".to_string(),
            1 => "1".to_string(),
            2 => "1.0".to_string(),
            3 => "0.5".to_string(),
            4 => "1.5".to_string(),
            5 => format!("{:?}", rng.random::<f64>()),
            _ => "0.05".to_string(),
        })
    } else {
        None
    };
    Opts {
        protocol,
        seed,
        min,
        max,
        mutators,
        rate,
        unsafe_m: has_m && rng.random_range(0..3) == 0,
        allow_ext: rng.random_range(0..3) == 0,
        allow_buffer: rng.random_range(0..3) == 0,
        list_style: rng.random_range(0..3) == 0,
    }
}

#[derive(Clone, Debug, PartialEq)]
pub enum FsFault {
    /// k.pkl is a symlink to /dev/full: write fails with ENOSPC
    Enospc,
    /// k.pkl is a directory: EISDIR
    Eisdir,
    /// k.pkl is a symlink into a missing directory: ENOENT
    Enoent,
}

impl FsFault {
    fn name(&self) -> &'static str {
        match self {
            FsFault::Enospc => "enospc",
            FsFault::Eisdir => "eisdir",
            FsFault::Enoent => "enoent",
        }
    }
    fn from_name(s: &str) -> Option<FsFault> {
        Some(match s {
            "enospc" => FsFault::Enospc,
            "eisdir" => FsFault::Eisdir,
            "enoent" => FsFault::Enoent,
            _ => return None,
        })
    }
}

#[derive(Clone, Debug)]
pub enum Case {
    Single { opts: Opts, via_action: bool, style: u64, fsize: Option<u64> },
    Batch { opts: Opts, samples: usize, faults: Vec<(usize, FsFault)>, stale: bool, dir_preexists: bool, dir_is_file: bool, rayon_threads: usize, via_action: bool, style: u64, fsize: Option<u64> },
}

impl Case {
    pub fn to_json(&self) -> Value {
        match self {
            Case::Single { opts, via_action, style, fsize } => json!({"kind": "single", "opts": opts.to_json(), "via_action": via_action, "style": style, "rlimit_fsize": fsize}),
            Case::Batch { opts, samples, faults, stale, dir_preexists, dir_is_file, rayon_threads, via_action, style, fsize } => json!({
                "rlimit_fsize": fsize,
                "kind": "batch", "opts": opts.to_json(), "samples": samples,
                "fs_faults": faults.iter().map(|(k, f)| json!({"file": k, "kind": f.name()})).collect::<Vec<_>>(),
                "stale": stale, "dir_preexists": dir_preexists, "dir_is_file": dir_is_file, "rayon_threads": rayon_threads, "via_action": via_action, "style": style}),
        }
    }
    pub fn from_json(v: &Value) -> Option<Case> {
        let opts = Opts::from_json(&v["opts"])?;
        match v["kind"].as_str()? {
            "single" => Some(Case::Single { opts, via_action: v["via_action"].as_bool()?, style: v["style"].as_u64().unwrap_or(0), fsize: v["rlimit_fsize"].as_u64() }),
            "batch" => Some(Case::Batch {
                opts,
                samples: v["samples"].as_u64()? as usize,
                faults: v["fs_faults"].as_array()?.iter().filter_map(|f| Some((f["file"].as_u64()? as usize, FsFault::from_name(f["kind"].as_str()?)?))).collect(),
                stale: v["stale"].as_bool()?,
                dir_preexists: v["dir_preexists"].as_bool()?,
                dir_is_file: v["dir_is_file"].as_bool()?,
                rayon_threads: v["rayon_threads"].as_u64()? as usize,
                via_action: v["via_action"].as_bool()?,
                style: v["style"].as_u64().unwrap_or(0),
                fsize: v["rlimit_fsize"].as_u64(),
            }),
            _ => None,
        }
    }
}

pub fn draw_case(seed: u64, index: u64) -> Case {
    let mut rng = ChaCha8Rng::seed_from_u64(desc::derive_seed(seed, "C13", index));
    let opts = draw_opts(&mut rng);
    let via_action = rng.random_range(0..4) == 0;
    let style = rng.random::<u64>() >> 8;
    // short-write fault: the process may not write files larger than L bytes (RLIMIT_FSIZE); the
    // kernel then completes a write only partially
    let fsize = if opts.seed.is_some() && rng.random_range(0..12) == 0 { Some([0u64, 1, 64, 512, 4096][rng.random_range(0..5)]) } else { None };
    if rng.random_range(0..2) == 0 {
        Case::Single { opts, via_action, style, fsize }
    } else {
        // mostly small batches; one in 12 is large enough to keep every rayon worker busy for a while
        let mut samples = if rng.random_range(0..12) == 0 { rng.random_range(40..260) } else { rng.random_range(0..=12) };
        let mut faults = vec![];
        // one batch in 10 is a *mass-fault* plan: the number of failing writes is varied across
        // magnitudes and around powers of two (255/256/257/511/512, all, all but one)
        let mass = rng.random_range(0..10) == 0;
        if mass {
            samples = [256usize, 257, 300, 512, 513, 777][rng.random_range(0..6)];
            let f = [samples, samples - 1, 255, 256, 257, 511, 512][rng.random_range(0..7)].min(samples);
            // a random subset of size f
            let mut idx: Vec<usize> = (0..samples).collect();
            for i in (1..idx.len()).rev() {
                let j = rng.random_range(0..=i);
                idx.swap(i, j);
            }
            for &k in idx.iter().take(f) {
                faults.push((k, if rng.random_range(0..8) == 0 { FsFault::Enospc } else { FsFault::Eisdir }));
            }
        }
        if !mass && samples > 0 && rng.random_range(0..2) == 0 {
            let n = rng.random_range(1..=3.min(samples));
            for _ in 0..n {
                let k = rng.random_range(0..samples);
                if !faults.iter().any(|(x, _)| *x == k) {
                    let f = match rng.random_range(0..3) {
                        0 => FsFault::Enospc,
                        1 => FsFault::Eisdir,
                        _ => FsFault::Enoent,
                    };
                    faults.push((k, f));
                }
            }
        }
        let mut opts = opts;
        if mass {
            opts.min = Some(0);
            opts.max = Some(3);
            opts.mutators.clear();
            opts.rate = None;
            opts.unsafe_m = false;
        }
        let dir_is_file = faults.is_empty() && rng.random_range(0..12) == 0;
        let dir_preexists = !faults.is_empty() || dir_is_file || rng.random_range(0..2) == 0;
        Case::Batch {
            opts,
            samples,
            faults,
            stale: dir_preexists && !dir_is_file && rng.random_range(0..2) == 0,
            dir_preexists,
            dir_is_file,
            rayon_threads: [1usize, 2, 3, 8, 16][rng.random_range(0..5)],
            via_action,
            style,
            fsize: if mass { None } else { fsize },
        }
    }
}

fn scratch(tag: &str) -> PathBuf {
    let d = PathBuf::from(format!("{}/target/tmp/c13-{}-{}", engine::verif_root(), std::process::id(), tag));
    let _ = std::fs::remove_dir_all(&d);
    let _ = std::fs::create_dir_all(&d);
    d
}

struct RunOut {
    code: Option<i32>,
    stderr: String,
}

fn run_cli(args: &[String], rayon: Option<usize>, action_env: Option<Vec<(String, String)>>, fsize: Option<u64>) -> RunOut {
    let mut cmd;
    if let Some(env) = action_env {
        cmd = Command::new("bash");
        cmd.arg(format!("{}/scripts/action-run.sh", repo()));
        cmd.env_clear();
        let path = format!("{}:{}", cli_bin().parent().unwrap().display(), std::env::var("PATH").unwrap_or_default());
        cmd.env("PATH", path);
        for (k, v) in env {
            cmd.env(k, v);
        }
    } else {
        cmd = Command::new(cli_bin());
        cmd.args(args);
    }
    if let Some(n) = rayon {
        cmd.env("RAYON_NUM_THREADS", n.to_string());
    }
    cmd.env("NO_COLOR", "1");
    if let Some(l) = fsize {
        use std::os::unix::process::CommandExt;
        unsafe {
            cmd.pre_exec(move || {
                let lim = libc::rlimit { rlim_cur: l as libc::rlim_t, rlim_max: l as libc::rlim_t };
                libc::setrlimit(libc::RLIMIT_FSIZE, &lim);
                let core = libc::rlimit { rlim_cur: 0, rlim_max: 0 };
                libc::setrlimit(libc::RLIMIT_CORE, &core);
                Ok(())
            });
        }
    }
    let o = cmd.stdin(Stdio::null()).stdout(Stdio::piped()).stderr(Stdio::piped()).output();
    match o {
        Ok(o) => RunOut { code: o.status.code(), stderr: String::from_utf8_lossy(&o.stderr).to_string() },
        Err(e) => RunOut { code: None, stderr: format!("spawn failed: {}", e) },
    }
}

fn last_lines(s: &str) -> String {
    s.lines().filter(|l| !l.trim().is_empty()).take(6).collect::<Vec<_>>().join(" | ")
}

pub fn run_case(case: &Case, tag: &str, stats: &mut Stats) -> Vec<Violation> {
    let mut v = vec![];
    let dir = scratch(tag);
    match case {
        Case::Single { opts, via_action, style, fsize } => {
            let file = dir.join("out.pkl");
            // with a file-size limit below the pickle's size the write cannot complete: the only
            // requirement then is that the tool does not report success
            let short = match (fsize, expected_bytes(opts)) {
                (Some(l), Some((w, _))) => (w.len() as u64) > *l,
                _ => false,
            };
            if fsize.is_some() {
                stats.bump("fault.fs.rlimit_fsize(short write)");
            }
            let out = if *via_action {
                stats.bump("fault.front_end.action_wrapper_runs");
                let mut env = opts.action_env(*style);
                env.push(("INPUT_OUTPUT_FILE".into(), file.display().to_string()));
                run_cli(&[], None, Some(env), *fsize)
            } else {
                let mut args = vec![file.display().to_string()];
                args.extend(opts.argv());
                run_cli(&args, None, None, *fsize)
            };
            let label = if *via_action { "action-differs" } else { "cli-bytes-differ" };
            if short {
                if out.code == Some(0) {
                    v.push(Violation::new("C13", "exit-status(nonzero,0)", format!("the output file could not be written completely (RLIMIT_FSIZE {} bytes) but the tool exited 0", fsize.unwrap_or(0))));
                }
            } else if out.code != Some(0) {
                v.push(Violation::new("C13", format!("exit-status(0,{})", out.code.map(|c| c.to_string()).unwrap_or("signal".into())), format!("single-file mode failed ({}): {}", opts.summary(), last_lines(&out.stderr))));
            } else {
                match std::fs::read(&file) {
                    Err(e) => v.push(Violation::new("C13", "batch-files(missing out.pkl)", format!("exit 0 but no output file: {}", e))),
                    Ok(got) => {
                        if let Some((want, note)) = expected_bytes(opts) {
                            if let Some(n) = note {
                                v.push(Violation::new("C13", "cli-bytes-differ(all-content)", n));
                            }
                            if got != want {
                                v.push(Violation::new("C13", format!("{}({})", label, opts.summary()), format!("file has {} bytes (digest {:016x}), library returns {} bytes (digest {:016x}) for the corresponding configuration", got.len(), desc::digest(&got), want.len(), desc::digest(&want))));
                            }
                        } else {
                            stats.bump("c13.unseeded_runs_not_compared");
                            // unseeded: only the protocol byte can be checked
                            if let Some(p) = opts.protocol {
                                if p >= 2 && !(got.len() >= 2 && got[0] == 0x80 && got[1] == p) {
                                    v.push(Violation::new("C13", "cli-bytes-differ(protocol)", format!("--protocol {} but the file starts with {:02x?}", p, &got[..got.len().min(2)])));
                                }
                            }
                        }
                    }
                }
            }
        }
        Case::Batch { opts, samples, faults, stale, dir_preexists, dir_is_file, rayon_threads, via_action, style, fsize } => {
            let short = match (fsize, expected_bytes(opts)) {
                (Some(l), Some((w, _))) => (w.len() as u64) > *l && *samples > 0 && !*dir_is_file,
                _ => false,
            };
            if fsize.is_some() {
                stats.bump("fault.fs.rlimit_fsize(short write)");
            }
            let out_dir = dir.join("out");
            if *dir_is_file {
                let _ = std::fs::write(&out_dir, b"i am a file");
                stats.bump("fault.fs.output_dir_is_a_file");
            } else if *dir_preexists {
                let _ = std::fs::create_dir_all(&out_dir);
                stats.bump("fault.fs.preexisting_dir");
            }
            let mut before: Vec<(String, Vec<u8>)> = vec![];
            if *stale {
                for (name, content) in [(format!("{}.pkl", samples), b"stale-next".to_vec()), ("notes.txt".to_string(), b"keep me".to_vec()), (format!("{}.pkl", samples + 7), b"stale-far".to_vec())] {
                    let _ = std::fs::write(out_dir.join(&name), &content);
                    before.push((name, content));
                }
                stats.bump("fault.fs.stale_files_planted");
                // leftovers of an earlier batch *inside* the sample range (a corpus directory
                // regenerated in place): a much longer and a much shorter old 0.pkl / 1.pkl / last
                // one must be replaced by exactly the new bytes
                for (i, len) in [(0usize, 200_000usize), (1, 1), (samples.saturating_sub(1), 70_000)] {
                    if i < *samples && !faults.iter().any(|(k, _)| *k == i) {
                        let mut old = b"stale-old-sample ".repeat(len / 17 + 1);
                        old.truncate(len);
                        let _ = std::fs::write(out_dir.join(format!("{}.pkl", i)), &old);
                    }
                }
                stats.bump("fault.fs.stale_longer_and_shorter_samples_in_range");
            }
            for (k, f) in faults {
                let p = out_dir.join(format!("{}.pkl", k));
                match f {
                    FsFault::Enospc => {
                        let _ = std::os::unix::fs::symlink("/dev/full", &p);
                    }
                    FsFault::Eisdir => {
                        let _ = std::fs::create_dir(&p);
                    }
                    FsFault::Enoent => {
                        let _ = std::os::unix::fs::symlink(dir.join("missing-dir/x.pkl"), &p);
                    }
                }
                stats.bump(&format!("fault.fs.{}", f.name()));
            }
            let out = if *via_action {
                stats.bump("fault.front_end.action_wrapper_runs");
                let mut env = opts.action_env(*style);
                env.push(("INPUT_OUTPUT_DIR".into(), out_dir.display().to_string()));
                env.push(("INPUT_SAMPLES".into(), samples.to_string()));
                run_cli(&[], Some(*rayon_threads), Some(env), *fsize)
            } else {
                let mut args = vec!["--dir".to_string(), out_dir.display().to_string(), "--samples".to_string(), samples.to_string()];
                args.extend(opts.argv());
                run_cli(&args, Some(*rayon_threads), None, *fsize)
            };
            stats.bump(&format!("fault.rayon.threads={}", rayon_threads));
            let expect_ok = faults.is_empty() && !(*dir_is_file && *samples > 0) && !short;
            let got_ok = out.code == Some(0);
            if short {
                if got_ok {
                    v.push(Violation::new("C13", "exit-status(nonzero,0)", format!("no sample could be written completely (RLIMIT_FSIZE {} bytes) but the batch exited 0", fsize.unwrap_or(0))));
                }
                let _ = std::fs::remove_dir_all(&dir);
                return v;
            }
            if expect_ok != got_ok {
                v.push(Violation::new(
                    "C13",
                    format!("exit-status({},{})", if expect_ok { "0" } else { "nonzero" }, out.code.map(|c| c.to_string()).unwrap_or("signal".into())),
                    format!("batch of {} samples with {} planted write faults{}: {}", samples, faults.len(), if *dir_is_file { " (output dir is a file)" } else { "" }, last_lines(&out.stderr)),
                ));
            }
            if !*dir_is_file {
                let want = expected_bytes(opts);
                let mut problems = vec![];
                for i in 0..*samples {
                    let p = out_dir.join(format!("{}.pkl", i));
                    if faults.iter().any(|(k, _)| *k == i) {
                        continue;
                    }
                    match std::fs::read(&p) {
                        Err(_) => problems.push(format!("{}.pkl missing", i)),
                        Ok(got) => {
                            if let Some((w, _)) = &want {
                                if &got != w {
                                    problems.push(format!("{}.pkl differs from the library bytes", i));
                                }
                            } else if got.last() != Some(&b'.') {
                                problems.push(format!("{}.pkl is not a pickle", i));
                            }
                        }
                    }
                }
                if let Some((_, Some(n))) = &want {
                    v.push(Violation::new("C13", "cli-bytes-differ(all-content)", n.clone()));
                }
                // nothing else may appear, stale files stay untouched
                if let Ok(rd) = std::fs::read_dir(&out_dir) {
                    for e in rd.flatten() {
                        let name = e.file_name().to_string_lossy().to_string();
                        let is_sample = name.strip_suffix(".pkl").and_then(|n| n.parse::<usize>().ok()).is_some_and(|n| n < *samples);
                        let is_stale = before.iter().any(|(n, _)| *n == name);
                        if !is_sample && !is_stale {
                            problems.push(format!("unexpected file {}", name));
                        }
                    }
                }
                for (name, content) in &before {
                    if std::fs::read(out_dir.join(name)).ok().as_ref() != Some(content) {
                        problems.push(format!("pre-existing {} was modified or removed", name));
                    }
                }
                if !problems.is_empty() {
                    let differs = problems.iter().any(|p| p.contains("differs"));
                    let class = if differs { format!("{}({})", if *via_action { "action-differs" } else { "cli-bytes-differ" }, opts.summary()) } else { "batch-files(set difference)".to_string() };
                    v.push(Violation::new("C13", class, format!("{} problems, first: {} (rayon threads {}, {} samples)", problems.len(), problems[0], rayon_threads, samples)));
                }
            }
        }
    }
    let _ = std::fs::remove_dir_all(&dir);
    v
}

// ------------------------------------------------------------------------------------------
// Python front end

#[derive(Clone, Debug)]
pub enum PyCall {
    Generate,
    FromBytes(Vec<u8>),
    SetRange(usize, usize),
    Reset,
    /// PickleMutator.mutate(data, max_size)
    Mutate(Vec<u8>, usize),
}

#[derive(Clone, Debug)]
pub struct PySeq {
    /// drive `fuzz_pickle_parser(parser, protocol)` through the stub atheris: every call is FromBytes
    pub harness: bool,
    pub mutator_class: bool,
    pub protocol: u8,
    pub seed: Option<u64>,
    pub calls: Vec<PyCall>,
}

impl PySeq {
    pub fn to_json(&self) -> Value {
        json!({
            "ctor": {"kind": if self.harness { "fuzz_pickle_parser" } else if self.mutator_class { "PickleMutator" } else { "Generator" }, "protocol": self.protocol, "seed": self.seed},
            "calls": self.calls.iter().map(|c| match c {
                PyCall::Generate => json!(["generate"]),
                PyCall::FromBytes(b) => json!(["generate_from_bytes", desc::hex(b)]),
                PyCall::SetRange(a, b) => json!(["set_opcode_range", a, b]),
                PyCall::Reset => json!(["reset"]),
                PyCall::Mutate(b, m) => json!(["mutate", desc::hex(b), m]),
            }).collect::<Vec<_>>(),
        })
    }
    pub fn from_json(v: &Value) -> Option<PySeq> {
        let calls = v["calls"]
            .as_array()?
            .iter()
            .filter_map(|c| {
                let a = c.as_array()?;
                Some(match a.first()?.as_str()? {
                    "generate" => PyCall::Generate,
                    "generate_from_bytes" => PyCall::FromBytes(desc::unhex(a.get(1)?.as_str()?).ok()?),
                    "set_opcode_range" => PyCall::SetRange(a.get(1)?.as_u64()? as usize, a.get(2)?.as_u64()? as usize),
                    "reset" => PyCall::Reset,
                    "mutate" => PyCall::Mutate(desc::unhex(a.get(1)?.as_str()?).ok()?, a.get(2)?.as_u64()? as usize),
                    _ => return None,
                })
            })
            .collect();
        Some(PySeq {
            harness: v["ctor"]["kind"].as_str()? == "fuzz_pickle_parser",
            mutator_class: v["ctor"]["kind"].as_str()? == "PickleMutator",
            protocol: v["ctor"]["protocol"].as_u64()? as u8,
            seed: v["ctor"]["seed"].as_u64(),
            calls,
        })
    }

    /// what the Rust library returns for the same sequence: one entry per call (None = no bytes
    /// expected or not determined)
    pub fn expected(&self) -> Vec<Option<Vec<u8>>> {
        let cfg = Config::default_for(self.protocol);
        let mut history = vec![];
        let mut slots: Vec<Option<usize>> = vec![]; // call -> index of gen call
        let mut truncs: Vec<Option<usize>> = vec![];
        let mut gens = 0;
        for c in &self.calls {
            match c {
                PyCall::Generate => match self.seed {
                    Some(s) => {
                        history.push(HOp::Gen(Entropy::Rand(s)));
                        slots.push(Some(gens));
                        truncs.push(None);
                        gens += 1;
                    }
                    None => {
                        // unseeded generate(): not determined; it leaves no state behind (the
                        // generator resets at the start of every call)
                        slots.push(None);
                        truncs.push(None);
                    }
                },
                PyCall::FromBytes(b) => {
                    history.push(HOp::Gen(Entropy::Bytes(b.clone())));
                    slots.push(Some(gens));
                    truncs.push(None);
                    gens += 1;
                }
                PyCall::Mutate(b, m) => {
                    history.push(HOp::Gen(Entropy::Bytes(b.clone())));
                    slots.push(Some(gens));
                    truncs.push(Some(*m));
                    gens += 1;
                }
                PyCall::SetRange(a, b) => {
                    history.push(HOp::SetRange(*a, *b));
                    slots.push(None);
                    truncs.push(None);
                }
                PyCall::Reset => {
                    history.push(HOp::Reset);
                    slots.push(None);
                    truncs.push(None);
                }
            }
        }
        let sc = Scenario { config: cfg, hash_key: 0, history, faults: vec![], steer: None };
        let recs = exec::run_scenario(&sc, Trace::Off, false);
        slots
            .iter()
            .zip(truncs.iter())
            .map(|(s, t)| {
                let b = recs.get((*s)?)?.outcome.bytes()?.to_vec();
                Some(match t {
                    Some(m) if b.len() > *m => b[..*m].to_vec(),
                    _ => b,
                })
            })
            .collect()
    }
}

pub fn draw_pyseq(seed: u64, index: u64) -> PySeq {
    let mut rng = ChaCha8Rng::seed_from_u64(desc::derive_seed(seed, "C13.py", index));
    let harness = rng.random_range(0..6) == 0;
    let mutator_class = !harness && rng.random_range(0..3) == 0;
    let n = rng.random_range(1..=7);
    let mut calls = vec![];
    let mut inputs: Vec<Vec<u8>> = vec![];
    let bytes_in = |rng: &mut ChaCha8Rng, inputs: &mut Vec<Vec<u8>>| -> Vec<u8> {
        if !inputs.is_empty() && rng.random_range(0..3) == 0 {
            return inputs[rng.random_range(0..inputs.len())].clone();
        }
        let len = [0usize, 1, 3, 17, 64, 300][rng.random_range(0..6)];
        let mut b = vec![0u8; len];
        rng.fill_bytes(&mut b);
        inputs.push(b.clone());
        b
    };
    for _ in 0..n {
        if harness {
            calls.push(PyCall::FromBytes(bytes_in(&mut rng, &mut inputs)));
        } else if mutator_class {
            match rng.random_range(0..8) {
                0 => calls.push(PyCall::Reset),
                1 => calls.push(PyCall::SetRange(rng.random_range(0..30), rng.random_range(30..90))),
                _ => {
                    let b = bytes_in(&mut rng, &mut inputs);
                    let max = [10_000usize, 100_000, 64, 5, 0][rng.random_range(0..5)];
                    calls.push(PyCall::Mutate(b, max));
                }
            }
        } else {
            match rng.random_range(0..8) {
                0 => calls.push(PyCall::Reset),
                1..=2 => {
                    let a = rng.random_range(0..40);
                    calls.push(PyCall::SetRange(a, a + rng.random_range(0..60)));
                }
                3..=5 => calls.push(PyCall::Generate),
                _ => calls.push(PyCall::FromBytes(bytes_in(&mut rng, &mut inputs))),
            }
        }
    }
    PySeq { harness, mutator_class, protocol: rng.random_range(0..6), seed: if !harness && rng.random_range(0..5) > 0 { Some(rng.random::<u64>() >> 12) } else { None }, calls }
}

/// run a batch of sequences in one python3 process on the freshly built `_native`
pub fn run_python(seqs: &[PySeq]) -> Result<Vec<Vec<Option<Vec<u8>>>>, String> {
    use std::io::Write;
    let script = format!("{}/sim/py/pydriver.py", engine::verif_root());
    let mut child = Command::new("python3")
        .arg(&script)
        .env("PYTHONPATH", pypkg_dir())
        .env("PYTHONDONTWRITEBYTECODE", "1")
        .stdin(Stdio::piped())
        .stdout(Stdio::piped())
        .stderr(Stdio::piped())
        .spawn()
        .map_err(|e| format!("python3: {}", e))?;
    let mut input = String::new();
    for s in seqs {
        input.push_str(&s.to_json().to_string());
        input.push('\n');
    }
    let mut stdin = child.stdin.take().unwrap();
    let h = std::thread::spawn(move || {
        let _ = stdin.write_all(input.as_bytes());
    });
    let out = child.wait_with_output().map_err(|e| e.to_string())?;
    let _ = h.join();
    if !out.status.success() {
        return Err(format!("python driver failed: {}", String::from_utf8_lossy(&out.stderr).lines().rev().take(8).collect::<Vec<_>>().join(" | ")));
    }
    let txt = String::from_utf8_lossy(&out.stdout);
    let mut res = vec![];
    for line in txt.lines() {
        let v: Value = serde_json::from_str(line).map_err(|e| format!("driver output: {}", e))?;
        let r = v["results"]
            .as_array()
            .ok_or("results")?
            .iter()
            .map(|x| x.as_str().and_then(|h| if h.starts_with("ERR") { None } else { desc::unhex(h).ok() }))
            .collect();
        res.push(r);
    }
    if res.len() != seqs.len() {
        return Err(format!("python driver answered {} of {} sequences", res.len(), seqs.len()));
    }
    Ok(res)
}

pub fn judge_pyseq(seq: &PySeq, got: &[Option<Vec<u8>>]) -> Option<Violation> {
    let want = seq.expected();
    let mut range_set = false;
    for (i, c) in seq.calls.iter().enumerate() {
        let name = match c {
            PyCall::Generate => "generate",
            PyCall::FromBytes(_) => "generate_from_bytes",
            PyCall::SetRange(..) => {
                range_set = true;
                continue;
            }
            PyCall::Reset => continue,
            PyCall::Mutate(..) => "mutate",
        };
        let Some(w) = want.get(i).and_then(|x| x.as_ref()) else { continue };
        match got.get(i).and_then(|x| x.as_ref()) {
            Some(g) if g == w => {}
            g => {
                let class = if range_set && name == "generate" {
                    "python-setting-lost(seed)".to_string()
                } else if range_set {
                    format!("python-differs({} after set_opcode_range)", name)
                } else {
                    format!("python-differs({})", name)
                };
                return Some(Violation::new(
                    "C13",
                    class,
                    format!("call #{} {}: python returned {} bytes, the library {} bytes for the same call sequence", i, name, g.map(|b| b.len() as i64).unwrap_or(-1), w.len()),
                ));
            }
        }
    }
    None
}
