//! R1 — reference lexer for pickle opcode streams, written from CPython's `pickletools`
//! (readers `read_*` and `genops`), never from /repo/src.
//!
//! `lex()` decodes up to and including the first STOP, exactly as `pickletools.genops` does,
//! and reports the first error with a stable class name. Domain checks that `pickletools`
//! does not make itself (EXT code >= 1, memo index >= 0) are reported separately by
//! `domain_errors()` so that the CPython cross-check can compare `lex()` alone.

use crate::optable::{OpInfo, OPCODES};

#[derive(Clone, Copy, Debug, PartialEq, Eq)]
pub enum ArgKind {
    Uint1,
    Uint2,
    Int4,
    Uint4,
    Uint8,
    DecimalnlShort,
    DecimalnlLong,
    Floatnl,
    Float8,
    Stringnl,
    StringnlNoescape,
    StringnlNoescapePair,
    Unicodestringnl,
    String1,
    String4,
    Bytes1,
    Bytes4,
    Bytes8,
    Bytearray8,
    Unicodestring1,
    Unicodestring4,
    Unicodestring8,
    Long1,
    Long4,
}

impl ArgKind {
    pub fn name(self) -> &'static str {
        use ArgKind::*;
        match self {
            Uint1 => "uint1",
            Uint2 => "uint2",
            Int4 => "int4",
            Uint4 => "uint4",
            Uint8 => "uint8",
            DecimalnlShort => "decimalnl_short",
            DecimalnlLong => "decimalnl_long",
            Floatnl => "floatnl",
            Float8 => "float8",
            Stringnl => "stringnl",
            StringnlNoescape => "stringnl_noescape",
            StringnlNoescapePair => "stringnl_noescape_pair",
            Unicodestringnl => "unicodestringnl",
            String1 => "string1",
            String4 => "string4",
            Bytes1 => "bytes1",
            Bytes4 => "bytes4",
            Bytes8 => "bytes8",
            Bytearray8 => "bytearray8",
            Unicodestring1 => "unicodestring1",
            Unicodestring4 => "unicodestring4",
            Unicodestring8 => "unicodestring8",
            Long1 => "long1",
            Long4 => "long4",
        }
    }
}

#[derive(Clone, Debug, PartialEq)]
pub enum Arg {
    None,
    /// fixed-width integers and decimal literals that fit i128
    Int(i128),
    /// decimal literal too large for i128 (still a valid argument)
    BigInt,
    /// the `00` / `01` hack of decimalnl_short
    Bool(bool),
    Float(f64),
    /// payload of a counted or newline-terminated argument: byte range in the buffer
    /// (for newline-terminated ones: the line(s) without the final newline)
    Data { start: usize, end: usize },
}

#[derive(Clone, Debug)]
pub struct Op {
    pub pos: usize,
    /// offset one past the last byte of the argument
    pub end: usize,
    pub info: &'static OpInfo,
    pub arg: Arg,
}

impl Op {
    pub fn name(&self) -> &'static str {
        self.info.name
    }
    pub fn code(&self) -> u8 {
        self.info.code
    }
    pub fn int(&self) -> Option<i128> {
        match self.arg {
            Arg::Int(v) => Some(v),
            Arg::Bool(b) => Some(b as i128),
            _ => None,
        }
    }
}

#[derive(Clone, Debug, PartialEq, Eq)]
pub enum LexClass {
    UnknownOpcode,
    /// buffer ended before a STOP was seen (at an opcode boundary)
    Exhausted,
    TruncatedArg,
    BadArg,
}

#[derive(Clone, Debug)]
pub struct LexError {
    pub pos: usize,
    pub class: LexClass,
    pub opcode: Option<&'static str>,
    pub grammar: Option<&'static str>,
    pub byte: Option<u8>,
    pub detail: String,
}

impl LexError {
    pub fn class_name(&self) -> String {
        match self.class {
            LexClass::UnknownOpcode => format!("unknown-opcode(0x{:02x})", self.byte.unwrap_or(0)),
            LexClass::Exhausted => "stop-count(0)".to_string(),
            LexClass::TruncatedArg => format!("truncated-arg({})", self.opcode.unwrap_or("?")),
            LexClass::BadArg => format!(
                "bad-arg({},{})",
                self.opcode.unwrap_or("?"),
                self.grammar.unwrap_or("?")
            ),
        }
    }
}

pub fn lookup(code: u8) -> Option<&'static OpInfo> {
    // 68 entries; build a 256-entry table once
    use std::sync::OnceLock;
    static T: OnceLock<[Option<&'static OpInfo>; 256]> = OnceLock::new();
    let t = T.get_or_init(|| {
        let mut t: [Option<&'static OpInfo>; 256] = [None; 256];
        for o in OPCODES {
            t[o.code as usize] = Some(o);
        }
        t
    });
    t[code as usize]
}

pub fn by_name(name: &str) -> Option<&'static OpInfo> {
    OPCODES.iter().find(|o| o.name == name)
}

struct Rd<'a> {
    b: &'a [u8],
    p: usize,
}

type R<T> = Result<T, (LexClass, String)>;

impl<'a> Rd<'a> {
    fn take(&mut self, n: usize, what: &str) -> R<&'a [u8]> {
        if self.b.len() - self.p < n {
            return Err((LexClass::TruncatedArg, format!("not enough data for {}", what)));
        }
        let s = &self.b[self.p..self.p + n];
        self.p += n;
        Ok(s)
    }
    /// python `readline()`: up to and including the first `\n`; error if none
    fn line(&mut self, what: &str) -> R<(usize, usize)> {
        let rest = &self.b[self.p..];
        match rest.iter().position(|&c| c == b'\n') {
            Some(i) => {
                let s = self.p;
                self.p += i + 1;
                Ok((s, s + i))
            }
            None => {
                self.p = self.b.len();
                Err((LexClass::TruncatedArg, format!("no newline found when trying to read {}", what)))
            }
        }
    }
}

fn py_isspace(c: u8) -> bool {
    matches!(c, b' ' | b'\t' | b'\n' | 0x0b | 0x0c | b'\r')
}

/// python `int(bytes)` (base 10)
pub fn parse_py_int(s: &[u8]) -> Result<Arg, String> {
    let mut i = 0;
    let mut j = s.len();
    while i < j && py_isspace(s[i]) {
        i += 1;
    }
    while j > i && py_isspace(s[j - 1]) {
        j -= 1;
    }
    let t = &s[i..j];
    let mut k = 0;
    let mut neg = false;
    if k < t.len() && (t[k] == b'+' || t[k] == b'-') {
        neg = t[k] == b'-';
        k += 1;
    }
    let digits = &t[k..];
    if digits.is_empty() {
        return Err("invalid literal for int()".into());
    }
    let mut prev_us = true; // leading underscore not allowed
    let mut n = 0usize;
    let mut val: Option<i128> = Some(0);
    for &c in digits {
        if c == b'_' {
            if prev_us {
                return Err("invalid literal for int() (underscore)".into());
            }
            prev_us = true;
        } else if c.is_ascii_digit() {
            prev_us = false;
            n += 1;
            val = val
                .and_then(|v| v.checked_mul(10))
                .and_then(|v| v.checked_add((c - b'0') as i128));
        } else {
            return Err("invalid literal for int()".into());
        }
    }
    if prev_us {
        return Err("invalid literal for int() (trailing underscore)".into());
    }
    if n > 4300 {
        return Err("exceeds the limit (4300 digits) for integer string conversion".into());
    }
    Ok(match val {
        Some(v) => Arg::Int(if neg { -v } else { v }),
        None => Arg::BigInt,
    })
}

/// python `float(bytes)`
pub fn parse_py_float(s: &[u8]) -> Result<f64, String> {
    let mut i = 0;
    let mut j = s.len();
    while i < j && py_isspace(s[i]) {
        i += 1;
    }
    while j > i && py_isspace(s[j - 1]) {
        j -= 1;
    }
    let t = &s[i..j];
    if t.is_empty() {
        return Err("could not convert string to float".into());
    }
    // underscores: only between digits
    let mut clean = Vec::with_capacity(t.len());
    for (idx, &c) in t.iter().enumerate() {
        if c == b'_' {
            let prev = idx > 0 && t[idx - 1].is_ascii_digit();
            let next = idx + 1 < t.len() && t[idx + 1].is_ascii_digit();
            if !(prev && next) {
                return Err("could not convert string to float (underscore)".into());
            }
        } else {
            clean.push(c);
        }
    }
    let t = &clean[..];
    let mut k = 0;
    let mut neg = false;
    if t[k] == b'+' || t[k] == b'-' {
        neg = t[k] == b'-';
        k += 1;
    }
    let body = &t[k..];
    let lower: Vec<u8> = body.iter().map(|c| c.to_ascii_lowercase()).collect();
    if lower == b"inf" || lower == b"infinity" {
        return Ok(if neg { f64::NEG_INFINITY } else { f64::INFINITY });
    }
    if lower == b"nan" {
        return Ok(f64::NAN);
    }
    // decimal: digits [. digits] [e [+-] digits] | . digits [...]
    let mut p = 0;
    let mut nd = 0;
    while p < body.len() && body[p].is_ascii_digit() {
        p += 1;
        nd += 1;
    }
    if p < body.len() && body[p] == b'.' {
        p += 1;
        while p < body.len() && body[p].is_ascii_digit() {
            p += 1;
            nd += 1;
        }
    }
    if nd == 0 {
        return Err("could not convert string to float".into());
    }
    if p < body.len() && (body[p] == b'e' || body[p] == b'E') {
        p += 1;
        if p < body.len() && (body[p] == b'+' || body[p] == b'-') {
            p += 1;
        }
        let mut ne = 0;
        while p < body.len() && body[p].is_ascii_digit() {
            p += 1;
            ne += 1;
        }
        if ne == 0 {
            return Err("could not convert string to float (exponent)".into());
        }
    }
    if p != body.len() {
        return Err("could not convert string to float".into());
    }
    let txt = std::str::from_utf8(t).map_err(|_| "non-ascii".to_string())?;
    // rust accepts the same decimal grammar once validated above ("1." and ".5" included)
    txt.parse::<f64>().map_err(|e| format!("rust parse: {}", e))
}

/// `codecs.escape_decode(data)[0].decode("ascii")` — validation only
pub fn check_escape_decode_ascii(d: &[u8]) -> Result<(), String> {
    let mut i = 0;
    while i < d.len() {
        let c = d[i];
        if c != b'\\' {
            if c >= 0x80 {
                return Err("'ascii' codec can't decode byte".into());
            }
            i += 1;
            continue;
        }
        i += 1;
        if i >= d.len() {
            return Err("Trailing \\ in string".into());
        }
        let e = d[i];
        i += 1;
        match e {
            b'\n' | b'\\' | b'\'' | b'"' | b'b' | b'f' | b't' | b'n' | b'r' | b'v' | b'a' => {}
            b'0'..=b'7' => {
                let mut v = (e - b'0') as u32;
                let mut n = 1;
                while n < 3 && i < d.len() && (b'0'..=b'7').contains(&d[i]) {
                    v = v * 8 + (d[i] - b'0') as u32;
                    i += 1;
                    n += 1;
                }
                if (v & 0xff) >= 0x80 {
                    return Err("'ascii' codec can't decode byte (octal escape)".into());
                }
            }
            b'x' => {
                if i + 1 < d.len() + 0 && d[i].is_ascii_hexdigit() && d[i + 1].is_ascii_hexdigit() {
                    let v = u8::from_str_radix(std::str::from_utf8(&d[i..i + 2]).unwrap(), 16).unwrap();
                    i += 2;
                    if v >= 0x80 {
                        return Err("'ascii' codec can't decode byte (hex escape)".into());
                    }
                } else {
                    return Err("invalid \\x escape".into());
                }
            }
            _ => {
                // unknown escape: backslash and character are kept
                if e >= 0x80 {
                    return Err("'ascii' codec can't decode byte".into());
                }
            }
        }
    }
    Ok(())
}

/// `str(data, 'raw-unicode-escape')` — validation only
pub fn check_raw_unicode_escape(d: &[u8]) -> Result<(), String> {
    let mut i = 0;
    while i < d.len() {
        let c = d[i];
        i += 1;
        if c != b'\\' || i >= d.len() {
            continue;
        }
        let e = d[i];
        i += 1;
        let count = match e {
            b'u' => 4,
            b'U' => 8,
            _ => continue,
        };
        if i + count > d.len() {
            return Err("truncated \\uXXXX escape".into());
        }
        let mut v: u32 = 0;
        for k in 0..count {
            let h = d[i + k];
            if !h.is_ascii_hexdigit() {
                return Err("truncated \\uXXXX escape".into());
            }
            v = (v << 4) | (h as char).to_digit(16).unwrap();
        }
        i += count;
        if v > 0x10FFFF {
            return Err("\\Uxxxxxxxx out of range".into());
        }
    }
    Ok(())
}

/// `str(data, 'utf-8', 'surrogatepass')` — validation only
pub fn check_utf8_surrogatepass(d: &[u8]) -> Result<(), String> {
    let mut i = 0;
    while i < d.len() {
        let c = d[i];
        if c < 0x80 {
            i += 1;
        } else if (0xC2..=0xDF).contains(&c) {
            if i + 1 >= d.len() || d[i + 1] & 0xC0 != 0x80 {
                return Err("invalid utf-8".into());
            }
            i += 2;
        } else if (0xE0..=0xEF).contains(&c) {
            if i + 2 >= d.len() || d[i + 1] & 0xC0 != 0x80 || d[i + 2] & 0xC0 != 0x80 {
                return Err("invalid utf-8".into());
            }
            if c == 0xE0 && d[i + 1] < 0xA0 {
                return Err("invalid utf-8 (overlong)".into());
            }
            // surrogates ED A0..BF xx are allowed by surrogatepass
            i += 3;
        } else if (0xF0..=0xF4).contains(&c) {
            if i + 3 >= d.len()
                || d[i + 1] & 0xC0 != 0x80
                || d[i + 2] & 0xC0 != 0x80
                || d[i + 3] & 0xC0 != 0x80
            {
                return Err("invalid utf-8".into());
            }
            if c == 0xF0 && d[i + 1] < 0x90 {
                return Err("invalid utf-8 (overlong)".into());
            }
            if c == 0xF4 && d[i + 1] > 0x8F {
                return Err("invalid utf-8 (> U+10FFFF)".into());
            }
            i += 4;
        } else {
            return Err("invalid utf-8 start byte".into());
        }
    }
    Ok(())
}

fn le(b: &[u8]) -> u64 {
    let mut v = 0u64;
    for (i, &x) in b.iter().enumerate() {
        v |= (x as u64) << (8 * i);
    }
    v
}

fn read_arg(rd: &mut Rd, kind: ArgKind) -> R<Arg> {
    use ArgKind::*;
    let bad = |s: String| (LexClass::BadArg, s);
    let counted = |rd: &mut Rd, n: u64, what: &str| -> R<(usize, usize)> {
        if n > i64::MAX as u64 {
            return Err((LexClass::BadArg, format!("{} byte count > sys.maxsize", what)));
        }
        let rem = (rd.b.len() - rd.p) as u64;
        if n > rem {
            rd.p = rd.b.len();
            return Err((LexClass::TruncatedArg, format!("expected {} bytes in a {}, but only {} remain", n, what, rem)));
        }
        let s = rd.p;
        rd.p += n as usize;
        Ok((s, rd.p))
    };
    Ok(match kind {
        Uint1 => Arg::Int(rd.take(1, "uint1")?[0] as i128),
        Uint2 => Arg::Int(le(rd.take(2, "uint2")?) as i128),
        Int4 => Arg::Int(le(rd.take(4, "int4")?) as u32 as i32 as i128),
        Uint4 => Arg::Int(le(rd.take(4, "uint4")?) as i128),
        Uint8 => Arg::Int(le(rd.take(8, "uint8")?) as i128),
        Float8 => {
            let b = rd.take(8, "float8")?;
            let mut a = [0u8; 8];
            a.copy_from_slice(b);
            Arg::Float(f64::from_be_bytes(a))
        }
        DecimalnlShort => {
            let (s, e) = rd.line("stringnl")?;
            let d = &rd.b[s..e];
            if d == b"00" {
                Arg::Bool(false)
            } else if d == b"01" {
                Arg::Bool(true)
            } else {
                parse_py_int(d).map_err(bad)?
            }
        }
        DecimalnlLong => {
            let (s, e) = rd.line("stringnl")?;
            let mut d = &rd.b[s..e];
            if d.last() == Some(&b'L') {
                d = &d[..d.len() - 1];
            }
            parse_py_int(d).map_err(bad)?
        }
        Floatnl => {
            let (s, e) = rd.line("stringnl")?;
            Arg::Float(parse_py_float(&rd.b[s..e]).map_err(bad)?)
        }
        Stringnl => {
            let (s, e) = rd.line("stringnl")?;
            let d = &rd.b[s..e];
            let q = match d.first() {
                Some(&b'"') => b'"',
                Some(&b'\'') => b'\'',
                _ => return Err(bad("no string quotes around".into())),
            };
            if d.last() != Some(&q) {
                return Err(bad("string quote not found at both ends".into()));
            }
            // python: data[1:-1] (a lone quote character yields the empty string)
            let inner: &[u8] = if d.len() >= 2 { &d[1..d.len() - 1] } else { &[] };
            check_escape_decode_ascii(inner).map_err(bad)?;
            Arg::Data { start: s, end: e }
        }
        StringnlNoescape => {
            let (s, e) = rd.line("stringnl")?;
            check_escape_decode_ascii(&rd.b[s..e]).map_err(bad)?;
            Arg::Data { start: s, end: e }
        }
        StringnlNoescapePair => {
            let (s, e) = rd.line("stringnl")?;
            check_escape_decode_ascii(&rd.b[s..e]).map_err(bad)?;
            let (s2, e2) = rd.line("stringnl")?;
            check_escape_decode_ascii(&rd.b[s2..e2]).map_err(bad)?;
            Arg::Data { start: s, end: e2 }
        }
        Unicodestringnl => {
            let (s, e) = rd.line("unicodestringnl")?;
            check_raw_unicode_escape(&rd.b[s..e]).map_err(bad)?;
            Arg::Data { start: s, end: e }
        }
        String1 | Bytes1 => {
            let n = rd.take(1, "uint1")?[0] as u64;
            let (s, e) = counted(rd, n, kind.name())?;
            Arg::Data { start: s, end: e }
        }
        String4 => {
            let n = le(rd.take(4, "int4")?) as u32 as i32;
            if n < 0 {
                return Err(bad(format!("string4 byte count < 0: {}", n)));
            }
            let (s, e) = counted(rd, n as u64, "string4")?;
            Arg::Data { start: s, end: e }
        }
        Bytes4 => {
            let n = le(rd.take(4, "uint4")?);
            let (s, e) = counted(rd, n, "bytes4")?;
            Arg::Data { start: s, end: e }
        }
        Bytes8 | Bytearray8 => {
            let n = le(rd.take(8, "uint8")?);
            let (s, e) = counted(rd, n, kind.name())?;
            Arg::Data { start: s, end: e }
        }
        Unicodestring1 | Unicodestring4 | Unicodestring8 => {
            let w = match kind {
                Unicodestring1 => 1,
                Unicodestring4 => 4,
                _ => 8,
            };
            let n = le(rd.take(w, "length")?);
            let (s, e) = counted(rd, n, kind.name())?;
            check_utf8_surrogatepass(&rd.b[s..e]).map_err(bad)?;
            Arg::Data { start: s, end: e }
        }
        Long1 => {
            let n = rd.take(1, "uint1")?[0] as u64;
            let rem = (rd.b.len() - rd.p) as u64;
            if n > rem {
                rd.p = rd.b.len();
                return Err((LexClass::TruncatedArg, "not enough data in stream to read long1".into()));
            }
            let s = rd.p;
            rd.p += n as usize;
            Arg::Data { start: s, end: rd.p }
        }
        Long4 => {
            let n = le(rd.take(4, "int4")?) as u32 as i32;
            if n < 0 {
                return Err(bad(format!("long4 byte count < 0: {}", n)));
            }
            let rem = (rd.b.len() - rd.p) as u64;
            if n as u64 > rem {
                rd.p = rd.b.len();
                return Err((LexClass::TruncatedArg, "not enough data in stream to read long4".into()));
            }
            let s = rd.p;
            rd.p += n as usize;
            Arg::Data { start: s, end: rd.p }
        }
    })
}

/// Decode like `pickletools.genops`: all opcodes up to and including the first STOP.
/// On error the opcodes decoded so far are returned too.
pub fn lex(buf: &[u8]) -> (Vec<Op>, Option<LexError>) {
    let mut rd = Rd { b: buf, p: 0 };
    let mut ops = Vec::new();
    loop {
        let pos = rd.p;
        if pos >= buf.len() {
            return (
                ops,
                Some(LexError {
                    pos,
                    class: LexClass::Exhausted,
                    opcode: None,
                    grammar: None,
                    byte: None,
                    detail: "pickle exhausted before seeing STOP".into(),
                }),
            );
        }
        let code = buf[pos];
        rd.p += 1;
        let Some(info) = lookup(code) else {
            return (
                ops,
                Some(LexError {
                    pos,
                    class: LexClass::UnknownOpcode,
                    opcode: None,
                    grammar: None,
                    byte: Some(code),
                    detail: format!("unknown opcode 0x{:02x} at {}", code, pos),
                }),
            );
        };
        let arg = match info.arg {
            None => Arg::None,
            Some(k) => match read_arg(&mut rd, k) {
                Ok(a) => a,
                Err((class, detail)) => {
                    return (
                        ops,
                        Some(LexError {
                            pos,
                            class,
                            opcode: Some(info.name),
                            grammar: Some(k.name()),
                            byte: Some(code),
                            detail,
                        }),
                    )
                }
            },
        };
        ops.push(Op { pos, end: rd.p, info, arg });
        if code == b'.' {
            return (ops, None);
        }
    }
}

/// Domain rules the format imposes beyond the lexical grammar (C04): EXT codes >= 1 as the
/// encoding defines them, memo indices >= 0.
pub fn domain_errors(ops: &[Op]) -> Vec<(usize, String)> {
    let mut v = Vec::new();
    for (i, op) in ops.iter().enumerate() {
        match op.info.name {
            "EXT1" | "EXT2" | "EXT4" => match op.int() {
                Some(c) if c >= 1 => {}
                _ => v.push((i, format!("arg-domain({})", op.info.name))),
            },
            "GET" | "PUT" | "BINGET" | "BINPUT" | "LONG_BINGET" | "LONG_BINPUT" => match op.arg {
                Arg::Int(c) if c >= 0 => {}
                Arg::Bool(_) => {}
                Arg::BigInt => {}
                _ => v.push((i, format!("arg-domain({})", op.info.name))),
            },
            _ => {}
        }
    }
    v
}

#[cfg(test)]
mod tests {
    use super::*;
    #[test]
    fn basic() {
        let (ops, e) = lex(b"I1\n.");
        assert!(e.is_none());
        assert_eq!(ops.len(), 2);
        assert!(lex(b"I1\n").1.is_some());
        assert!(lex(b"S'a\\'\n.").1.is_some());
        assert!(lex(b"S'a\\''\n.").1.is_none());
        assert!(lex(b"F1e5\n.").1.is_none());
        assert!(lex(b"Fnan\n.").1.is_none());
        assert!(lex(b"FNaN\n.").1.is_none());
        assert!(lex(b"F1e\n.").1.is_some());
        assert!(lex(b"V\\u00e\n.").1.is_some());
        assert!(lex(b"V\\\\u00e\n.").1.is_none());
    }
}
