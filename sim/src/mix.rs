//! Seeded generation of scenarios ("the solo mix" and histories of DESIGN §2/§5): every run draws
//! its own configuration, entropy script, faults and history (swarm style).

use crate::desc::{Config, Entropy, Fault, HOp, Scenario};
use rand::{Rng, RngCore, SeedableRng};
use rand_chacha::ChaCha8Rng;

#[derive(Clone, Debug)]
pub struct Profile {
    /// false: unsafe_mutations always off; true: drawn
    pub allow_unsafe: bool,
    /// probability of the 1000..6000 opcode range class
    pub long_bias: f64,
    /// probability of the 20000..50000 class (quadratic cost)
    pub huge_bias: f64,
    /// probability that the rate is exactly 1.0 / exactly 0.0
    pub rate_one: f64,
    pub rate_zero: f64,
    /// out-of-range / NaN rates through the pub field
    pub wild_rates: bool,
    /// bias mutator lists towards offbyone/memoindex (C02)
    pub memo_mutators: bool,
    /// probability of a non-empty mutator list
    pub mutators_p: f64,
    /// only rand mode with default settings (C12)
    pub defaults_only: bool,
    /// probability of bytes mode
    pub bytes_p: f64,
    /// probability that a flag is on
    pub flag_p: f64,
    /// cap on opcode counts (keeps runs cheap where size is irrelevant)
    pub max_cap: usize,
    /// restrict protocols (None = uniform 0..=5)
    pub protocols: Option<Vec<u8>>,
}

impl Default for Profile {
    fn default() -> Self {
        Profile {
            allow_unsafe: false,
            long_bias: 0.01,
            huge_bias: 0.0,
            rate_one: 0.25,
            rate_zero: 0.1,
            wild_rates: false,
            memo_mutators: false,
            mutators_p: 0.7,
            defaults_only: false,
            bytes_p: 0.5,
            flag_p: 0.4,
            max_cap: 60_000,
            protocols: None,
        }
    }
}

pub const F64_PATTERNS: [(&str, u64); 14] = [
    ("nan", 0x7ff8_0000_0000_0000),
    ("neg_nan", 0xfff8_0000_0000_0000),
    ("inf", 0x7ff0_0000_0000_0000),
    ("neg_inf", 0xfff0_0000_0000_0000),
    ("neg_zero", 0x8000_0000_0000_0000),
    ("zero", 0),
    ("one", 0x3ff0_0000_0000_0000),
    ("minus_one", 0xbff0_0000_0000_0000),
    ("two", 0x4000_0000_0000_0000),
    ("huge", 0x7fe0_0000_0000_0000),
    ("subnormal", 0x0000_0000_0000_0001),
    ("just_below_one", 0x3fef_ffff_ffff_ffff),
    ("just_above_one", 0x3ff0_0000_0000_0001),
    ("half", 0x3fe0_0000_0000_0000),
];

pub fn rng_from(seed: u64) -> ChaCha8Rng {
    ChaCha8Rng::seed_from_u64(seed)
}

pub fn draw_protocol(rng: &mut ChaCha8Rng, p: &Profile) -> u8 {
    match &p.protocols {
        Some(v) => v[rng.random_range(0..v.len())],
        None => rng.random_range(0..6u8),
    }
}

pub fn draw_range(rng: &mut ChaCha8Rng, p: &Profile) -> (usize, usize) {
    let x: f64 = rng.random();
    let (a, b) = if x < p.huge_bias {
        let a = rng.random_range(20_000..40_000);
        (a, a + rng.random_range(0..10_000))
    } else if x < p.huge_bias + p.long_bias {
        let a = rng.random_range(1_000..5_000);
        (a, a + rng.random_range(0..1_500))
    } else {
        match rng.random_range(0..100) {
            0..=34 => (60, 300),
            35..=54 => (rng.random_range(0..6), rng.random_range(6..12)),
            55..=59 => {
                let a = rng.random_range(0..80);
                (a, a)
            }
            60..=65 => {
                // inverted
                let a = rng.random_range(1..120);
                (a, rng.random_range(0..a))
            }
            66..=68 => (0, 0),
            69..=71 => (0, 1),
            72..=86 => (rng.random_range(5..40), rng.random_range(40..90)),
            87..=93 => (rng.random_range(100..300), rng.random_range(300..700)),
            _ => (1, rng.random_range(1..400)),
        }
    };
    (a.min(p.max_cap), b.min(p.max_cap))
}

pub fn draw_mutators(rng: &mut ChaCha8Rng, p: &Profile) -> Vec<u8> {
    if rng.random::<f64>() >= p.mutators_p {
        return vec![];
    }
    // random subset in random order; every one of the 128 subsets has positive probability
    let mask: u8 = if rng.random_range(0..8) == 0 {
        0x7f
    } else {
        rng.random_range(1..128u8)
    };
    let mut v: Vec<u8> = (0..7u8).filter(|i| mask & (1 << i) != 0).collect();
    if p.memo_mutators {
        for k in [2u8, 5u8] {
            if !v.contains(&k) && rng.random_range(0..3) != 0 {
                v.push(k);
            }
        }
    }
    // one list in 10 registers a mutator twice (the API and `--mutators a a` allow it)
    if !v.is_empty() && rng.random_range(0..10) == 0 {
        let d = v[rng.random_range(0..v.len())];
        let extra = [1usize, 1, 1, 2, 3, 5][rng.random_range(0..6)];
        for _ in 0..extra {
            v.push(d);
        }
    }
    // shuffle
    for i in (1..v.len()).rev() {
        let j = rng.random_range(0..=i);
        v.swap(i, j);
    }
    v
}

pub fn draw_rate(rng: &mut ChaCha8Rng, p: &Profile) -> (f64, bool) {
    if p.wild_rates && rng.random_range(0..6) == 0 {
        let r = match rng.random_range(0..8) {
            0 => f64::NAN,
            1 => -1.0,
            2 => 2.0,
            3 => f64::INFINITY,
            4 => f64::NEG_INFINITY,
            5 => -0.0,
            6 => 1e308,
            _ => f64::MIN_POSITIVE,
        };
        return (r, true);
    }
    let x: f64 = rng.random();
    let r = if x < p.rate_one {
        1.0
    } else if x < p.rate_one + p.rate_zero {
        0.0
    } else {
        match rng.random_range(0..4) {
            0 => 0.1,
            1 => 0.5,
            _ => rng.random::<f64>(),
        }
    };
    (r, rng.random_range(0..8) == 0)
}

pub fn draw_config(rng: &mut ChaCha8Rng, p: &Profile) -> Config {
    let protocol = draw_protocol(rng, p);
    if p.defaults_only {
        return Config::default_for(protocol);
    }
    let (min, max) = draw_range(rng, p);
    let mutators = draw_mutators(rng, p);
    let (rate, via_field) = draw_rate(rng, p);
    let unsafe_mutations = p.allow_unsafe && rng.random_range(0..2) == 0;
    Config {
        protocol,
        min_opcodes: min,
        max_opcodes: max,
        mutators,
        rate,
        rate_via_field: via_field,
        unsafe_mutations,
        allow_ext: rng.random::<f64>() < p.flag_p,
        allow_buffer: rng.random::<f64>() < p.flag_p,
        // one configuration in 16 also sets the PRNG buffer size option
        bufsize: if rng.random_range(0..16) == 0 { Some([0usize, 1, 16, 255, 4096, 1 << 20, usize::MAX][rng.random_range(0..7)]) } else { None },
    }
}

/// a fuzzer byte script with texture and injected faults
pub fn draw_script(rng: &mut ChaCha8Rng, faults: &mut Vec<Fault>) -> Vec<u8> {
    let len = match rng.random_range(0..100) {
        0..=2 => 0,
        3..=9 => rng.random_range(1..3),
        10..=39 => rng.random_range(3..65),
        40..=79 => rng.random_range(65..1025),
        _ => rng.random_range(1024..8193),
    };
    let mut s = vec![0u8; len];
    match rng.random_range(0..10) {
        0..=4 => rng.fill_bytes(&mut s),
        5 => {
            // low-entropy alphabet
            let k = rng.random_range(1..5);
            let alpha: Vec<u8> = (0..k).map(|_| rng.random()).collect();
            for b in s.iter_mut() {
                *b = alpha[rng.random_range(0..alpha.len())];
            }
        }
        6 => {
            // runs of 0x00 / 0xff
            let mut i = 0;
            while i < s.len() {
                let run = rng.random_range(1..40).min(s.len() - i);
                let v = match rng.random_range(0..4) {
                    0 => 0x00,
                    1 => 0xff,
                    2 => 0x7f,
                    _ => 0x80,
                };
                for b in &mut s[i..i + run] {
                    *b = v;
                }
                i += run;
            }
        }
        7 => {
            for b in s.iter_mut() {
                *b = rng.random_range(0x20..0x7f);
            }
        }
        8 => {
            // small values: low opcode indices, short strings
            for b in s.iter_mut() {
                *b = rng.random_range(0..24);
            }
        }
        _ => rng.fill_bytes(&mut s),
    }
    // injected faults (about half of the scripts carry none)
    if rng.random_range(0..2) == 0 && !s.is_empty() {
        let n = rng.random_range(1..4);
        for _ in 0..n {
            match rng.random_range(0..3) {
                0 => {
                    // hostile f64 pattern (little endian, as `arbitrary` reads it)
                    let (name, bits) = F64_PATTERNS[rng.random_range(0..F64_PATTERNS.len())];
                    let at = rng.random_range(0..s.len());
                    let pat = bits.to_le_bytes();
                    for (k, b) in pat.iter().enumerate() {
                        if at + k < s.len() {
                            s[at + k] = *b;
                        }
                    }
                    faults.push(Fault {
                        kind: "f64",
                        at,
                        detail: name.to_string(),
                    });
                }
                1 => {
                    let at = rng.random_range(0..s.len());
                    let run = rng.random_range(1..64).min(s.len() - at);
                    let v = [0x00u8, 0xff, 0x7f, 0x80, rng.random()][rng.random_range(0..5)];
                    for b in &mut s[at..at + run] {
                        *b = v;
                    }
                    faults.push(Fault {
                        kind: "stuck",
                        at,
                        detail: format!("0x{:02x}x{}", v, run),
                    });
                }
                _ => {
                    let at = rng.random_range(0..=s.len());
                    s.truncate(at);
                    faults.push(Fault {
                        kind: "cut",
                        at,
                        detail: String::new(),
                    });
                    if s.is_empty() {
                        break;
                    }
                }
            }
        }
    }
    s
}

pub fn draw_entropy(rng: &mut ChaCha8Rng, p: &Profile, faults: &mut Vec<Fault>) -> Entropy {
    if p.defaults_only || rng.random::<f64>() >= p.bytes_p {
        Entropy::Rand(rng.random::<u64>() >> rng.random_range(0..64))
    } else {
        Entropy::Bytes(draw_script(rng, faults))
    }
}

pub fn draw_solo(rng: &mut ChaCha8Rng, p: &Profile) -> Scenario {
    let config = draw_config(rng, p);
    let mut faults = vec![];
    let entropy = draw_entropy(rng, p, &mut faults);
    let mut sc = Scenario::solo(config, entropy);
    sc.faults = faults;
    sc.hash_key = rng.random();
    sc
}

/// history of 1..=8 operations on one generator (DESIGN §2.3 `hist`)
pub fn draw_history(rng: &mut ChaCha8Rng, p: &Profile, max_ops: usize) -> Scenario {
    let config = draw_config(rng, p);
    let mut faults = vec![];
    let n = rng.random_range(1..=max_ops);
    let mut history = Vec::new();
    let mut gens = 0;
    while history.len() < n || gens == 0 {
        match rng.random_range(0..10) {
            0..=5 => {
                // repeat a previous input sometimes (the Atheris pattern: same x again)
                let prev: Vec<Entropy> = history
                    .iter()
                    .filter_map(|h| match h {
                        HOp::Gen(e) => Some(e.clone()),
                        _ => None,
                    })
                    .collect();
                let e = if !prev.is_empty() && rng.random_range(0..3) == 0 {
                    prev[rng.random_range(0..prev.len())].clone()
                } else {
                    draw_entropy(rng, p, &mut faults)
                };
                history.push(HOp::Gen(e));
                gens += 1;
            }
            6..=7 => history.push(HOp::Reset),
            8 => {
                let (a, b) = draw_range(rng, p);
                history.push(HOp::SetRange(a, b));
            }
            _ => {
                let what = rng.random_range(0..5);
                if what == 4 && !p.defaults_only {
                    // the protocol of the used generator is changed through `state.version`
                    let allowed: Vec<u8> = p.protocols.clone().unwrap_or_else(|| (0..6).collect());
                    history.push(HOp::SetProtocol(allowed[rng.random_range(0..allowed.len())]));
                    continue;
                }
                if what == 2 && !p.defaults_only {
                    // an interlude in the other mode on the same generator: switch, one or two
                    // calls, switch back (calls are judged under the mode in force for them)
                    let cur = history
                        .iter()
                        .rev()
                        .find_map(|h| match h {
                            HOp::SetUnsafe(u) => Some(*u),
                            _ => None,
                        })
                        .unwrap_or(config.unsafe_mutations);
                    history.push(HOp::SetUnsafe(!cur));
                    for _ in 0..rng.random_range(1..3) {
                        history.push(HOp::Gen(draw_entropy(rng, p, &mut faults)));
                        gens += 1;
                    }
                    history.push(HOp::SetUnsafe(cur));
                } else if what == 3 && !p.defaults_only {
                    history.push(HOp::SetMutators(draw_mutators(rng, p)));
                } else if what == 0 {
                    let (r, _) = draw_rate(rng, p);
                    history.push(HOp::SetRate(r));
                } else {
                    // toggle the opt-in flags through the pub fields between calls
                    history.push(HOp::SetFlags(rng.random_range(0..2) == 0, rng.random_range(0..2) == 0));
                }
            }
        }
        if history.len() > 3 * max_ops {
            break;
        }
    }
    // a history must end with a generation call to be interesting
    if !matches!(history.last(), Some(HOp::Gen(_))) {
        history.push(HOp::Gen(draw_entropy(rng, p, &mut faults)));
    }
    Scenario {
        config,
        hash_key: rng.random(),
        history,
        faults,
        steer: None,
    }
}
