//! `comp` scenario (DESIGN §2.3): one `EntropySource` or `Mutator` method called directly on a
//! harness-constructed *real* source (`Rand(seed)` or `Arbitrary(script)`), over a value grid x
//! every fault point of the entropy reader (script cut at every length, hostile f64 patterns at
//! every offset). No schedule: this is enumeration of fault points. Used by C18, C15, C16.

use crate::desc::{self, Entropy};
use crate::engine::Stats;
use crate::exec::{mutator_kind, SpyVal};
use crate::mix::F64_PATTERNS;
use crate::props::{self, Violation};
use arbitrary::Unstructured;
use pickle_fuzzer::verif::{EntropySource, GenerationSource};
use pickle_fuzzer::{EmissionSnapshot, Mutator};
use rand::{Rng, RngCore, SeedableRng};
use rand_chacha::ChaCha8Rng;
use serde_json::{json, Value};
use std::panic::{catch_unwind, AssertUnwindSafe};

pub const GRID: [usize; 12] = [0, 1, 2, 3, 255, 256, 257, 65_535, 65_536, 1 << 32, usize::MAX - 1, usize::MAX];

/// a call on the entropy seam
#[derive(Clone, Debug, PartialEq)]
pub enum Draw {
    ChooseIndex(usize),
    Bool,
    U8,
    U16,
    U32,
    I32,
    I64,
    F64,
    Range(usize, usize),
    Bytes(usize),
    AsciiChar,
}

impl Draw {
    pub fn to_json(&self) -> Value {
        match self {
            Draw::ChooseIndex(n) => json!({"m": "choose_index", "n": n.to_string()}),
            Draw::Range(a, b) => json!({"m": "gen_range", "a": a.to_string(), "b": b.to_string()}),
            Draw::Bytes(n) => json!({"m": "gen_bytes", "n": n.to_string()}),
            Draw::Bool => json!({"m": "gen_bool"}),
            Draw::U8 => json!({"m": "gen_u8"}),
            Draw::U16 => json!({"m": "gen_u16"}),
            Draw::U32 => json!({"m": "gen_u32"}),
            Draw::I32 => json!({"m": "gen_i32"}),
            Draw::I64 => json!({"m": "gen_i64"}),
            Draw::F64 => json!({"m": "gen_f64"}),
            Draw::AsciiChar => json!({"m": "gen_ascii_char"}),
        }
    }
    pub fn from_json(v: &Value) -> Option<Draw> {
        let u = |k: &str| v.get(k)?.as_str()?.parse::<usize>().ok();
        Some(match v.get("m")?.as_str()? {
            "choose_index" => Draw::ChooseIndex(u("n")?),
            "gen_range" => Draw::Range(u("a")?, u("b")?),
            "gen_bytes" => Draw::Bytes(u("n")?),
            "gen_bool" => Draw::Bool,
            "gen_u8" => Draw::U8,
            "gen_u16" => Draw::U16,
            "gen_u32" => Draw::U32,
            "gen_i32" => Draw::I32,
            "gen_i64" => Draw::I64,
            "gen_f64" => Draw::F64,
            "gen_ascii_char" => Draw::AsciiChar,
            _ => return None,
        })
    }
    pub fn name(&self) -> &'static str {
        match self {
            Draw::ChooseIndex(_) => "choose_index",
            Draw::Range(..) => "gen_range",
            Draw::Bytes(_) => "gen_bytes",
            Draw::Bool => "gen_bool",
            Draw::U8 => "gen_u8",
            Draw::U16 => "gen_u16",
            Draw::U32 => "gen_u32",
            Draw::I32 => "gen_i32",
            Draw::I64 => "gen_i64",
            Draw::F64 => "gen_f64",
            Draw::AsciiChar => "gen_ascii_char",
        }
    }
}

/// result of a draw, as a comparable string, after checking its range contract
fn do_draw(src: &mut GenerationSource, d: &Draw) -> Result<String, String> {
    Ok(match d {
        Draw::ChooseIndex(n) => {
            let x = src.choose_index(*n);
            if (*n == 0 && x != 0) || (*n > 0 && x >= *n) {
                return Err(format!("out-of-range: choose_index({}) = {}", n, x));
            }
            x.to_string()
        }
        Draw::Range(a, b) => {
            let x = src.gen_range(*a, *b);
            if a >= b {
                if x != *a {
                    return Err(format!("out-of-range: gen_range({},{}) = {} (expected {})", a, b, x, a));
                }
            } else if x < *a || x >= *b {
                return Err(format!("out-of-range: gen_range({},{}) = {}", a, b, x));
            }
            x.to_string()
        }
        Draw::Bytes(n) => {
            let x = src.gen_bytes(*n);
            if x.len() != *n {
                return Err(format!("wrong-length: gen_bytes({}) returned {} bytes", n, x.len()));
            }
            desc::hex(&x)
        }
        Draw::AsciiChar => {
            let c = src.gen_ascii_char();
            if !(c.is_ascii() && (0x20..0x7f).contains(&(c as u32))) {
                return Err(format!("out-of-range: gen_ascii_char = {:?}", c));
            }
            c.to_string()
        }
        Draw::Bool => src.gen_bool().to_string(),
        Draw::U8 => src.gen_u8().to_string(),
        Draw::U16 => src.gen_u16().to_string(),
        Draw::U32 => src.gen_u32().to_string(),
        Draw::I32 => src.gen_i32().to_string(),
        Draw::I64 => src.gen_i64().to_string(),
        Draw::F64 => format!("{:016x}", src.gen_f64().to_bits()),
    })
}

/// documented fallback on an exhausted (empty) fuzzer script
fn fallback(d: &Draw) -> Option<String> {
    Some(match d {
        Draw::ChooseIndex(_) => "0".into(),
        Draw::Range(a, _) => a.to_string(),
        Draw::Bytes(n) => "00".repeat(*n),
        Draw::Bool => "false".into(),
        Draw::U8 | Draw::U16 | Draw::U32 | Draw::I32 | Draw::I64 => "0".into(),
        Draw::F64 => format!("{:016x}", 0f64.to_bits()),
        // a fixed printable character; which one is not specified
        Draw::AsciiChar => return None,
    })
}

#[derive(Clone, Debug)]
pub struct SourceCase {
    pub entropy: Entropy,
    pub draws: Vec<Draw>,
}

impl SourceCase {
    pub fn to_json(&self) -> Value {
        json!({"entropy": self.entropy.to_json(), "draws": self.draws.iter().map(|d| d.to_json()).collect::<Vec<_>>()})
    }
    pub fn from_json(v: &Value) -> Option<Self> {
        Some(SourceCase {
            entropy: Entropy::from_json(v.get("entropy")?).ok()?,
            draws: v.get("draws")?.as_array()?.iter().map(Draw::from_json).collect::<Option<Vec<_>>>()?,
        })
    }
}

fn with_source<T>(e: &Entropy, f: impl FnOnce(&mut GenerationSource) -> T) -> T {
    match e {
        Entropy::Rand(s) => {
            let mut rng = ChaCha8Rng::seed_from_u64(*s);
            let mut src = GenerationSource::Rand(&mut rng);
            f(&mut src)
        }
        Entropy::Bytes(b) => {
            let mut u = Unstructured::new(b);
            let mut src = GenerationSource::Arbitrary(&mut u);
            f(&mut src)
        }
    }
}

/// C18 on one case: run the draws in order on one source; each result must satisfy its contract;
/// the same case executed twice must give the same results; on an empty script every draw returns
/// its documented fallback.
pub fn eval_source_case(c: &SourceCase) -> (Vec<String>, Option<Violation>) {
    let run = |c: &SourceCase| -> Result<Result<Vec<String>, (usize, String)>, String> {
        catch_unwind(AssertUnwindSafe(|| {
            with_source(&c.entropy, |src| {
                let mut out = vec![];
                for (i, d) in c.draws.iter().enumerate() {
                    match do_draw(src, d) {
                        Ok(s) => out.push(s),
                        Err(e) => return Err((i, e)),
                    }
                }
                Ok(out)
            })
        }))
        .map_err(|_| crate::exec::take_panic())
    };
    match run(c) {
        Err(p) => {
            let m = c.draws.last().map(|d| d.name()).unwrap_or("?");
            (vec![], Some(Violation::new("C18", format!("panic({})", m), format!("panic: {}", p))))
        }
        Ok(Err((i, e))) => {
            let m = c.draws[i].name();
            let class = if e.starts_with("wrong-length") { "wrong-length".to_string() } else { format!("out-of-range({})", m) };
            (vec![], Some(Violation::new("C18", class, e)))
        }
        Ok(Ok(out)) => {
            // determinism of the adapter
            match run(c) {
                Ok(Ok(out2)) if out2 == out => {}
                _ => {
                    let m = c.draws.last().map(|d| d.name()).unwrap_or("?");
                    return (out, Some(Violation::new("C18", format!("fallback-not-fixed({})", m), "same source state, different results on repetition")));
                }
            }
            if matches!(&c.entropy, Entropy::Bytes(b) if b.is_empty()) {
                for (d, r) in c.draws.iter().zip(out.iter()) {
                    if let Some(f) = fallback(d) {
                        if &f != r {
                            return (
                                out.clone(),
                                Some(Violation::new(
                                    "C18",
                                    format!("fallback-not-fixed({})", d.name()),
                                    format!("{} on an exhausted script returned {} (documented fallback {})", d.name(), r, f),
                                )),
                            );
                        }
                    }
                }
            }
            (out, None)
        }
    }
}

fn all_draws_for_grid(rng: &mut ChaCha8Rng) -> Vec<Draw> {
    let g = |rng: &mut ChaCha8Rng| GRID[rng.random_range(0..GRID.len())];
    let mut v = vec![Draw::Bool, Draw::U8, Draw::U16, Draw::U32, Draw::I32, Draw::I64, Draw::F64, Draw::AsciiChar];
    for &n in GRID.iter() {
        v.push(Draw::ChooseIndex(n));
    }
    for &a in GRID.iter() {
        v.push(Draw::Range(a, g(rng)));
        v.push(Draw::Range(a, a));
        v.push(Draw::Range(a, a.saturating_add(1)));
    }
    for n in [0usize, 1, 2, 7, 16, 255, 256, 4096] {
        v.push(Draw::Bytes(n));
    }
    v
}

pub struct CompOutcome {
    pub stats: Stats,
    pub found: Vec<Found2>,
    pub exhaustive_upto: usize,
}

/// a violating comp case (replay body is the case JSON)
#[derive(Clone, Debug)]
pub struct Found2 {
    pub index: u64,
    pub case: Value,
    pub violation: Violation,
}

/// C18 sweep. `exhaust_len`: all scripts up to this length are enumerated. Work is split over
/// threads by script / sample index; results are merged order-independently.
pub fn sweep_c18(seed: u64, exhaust_len: usize, sampled: u64) -> CompOutcome {
    let mut rng0 = ChaCha8Rng::seed_from_u64(desc::derive_seed(seed, "C18", 0));
    let draws = all_draws_for_grid(&mut rng0);
    let mut scripts: Vec<Vec<u8>> = vec![vec![]];
    if exhaust_len >= 1 {
        for a in 0..=255u8 {
            scripts.push(vec![a]);
        }
    }
    if exhaust_len >= 2 {
        for a in 0..=255u8 {
            for b in 0..=255u8 {
                scripts.push(vec![a, b]);
            }
        }
    }
    let nt = crate::engine::n_threads() as u64;
    let parts: Vec<(Stats, Vec<Found2>)> = std::thread::scope(|sc| {
        let mut hs = vec![];
        for t in 0..nt {
            let scripts = &scripts;
            let draws = &draws;
            hs.push(sc.spawn(move || {
                let mut stats = Stats::default();
                let mut found: Vec<Found2> = vec![];
                let run_case = |c: SourceCase, idx: u64, stats: &mut Stats, found: &mut Vec<Found2>| {
                    crate::engine::tick();
                    if idx % 4096 == 0 {
                        crate::engine::tick();
                    }
                    let (out, v) = eval_source_case(&c);
                    stats.evaluations += 1;
                    let short = matches!(&c.entropy, Entropy::Bytes(b) if b.len() < 8 * c.draws.len());
                    if short {
                        stats.bump("fault.short_read.script_shorter_than_draws_need");
                        stats.nontrivial.insert(desc::digest(format!("{:?}{:?}", c, out).as_bytes()));
                    }
                    if matches!(&c.entropy, Entropy::Bytes(b) if b.is_empty()) {
                        stats.bump("fault.exhausted.empty_script");
                    }
                    if stats.samples.len() < 1 && idx % 997 == 3 {
                        stats.samples.push(json!({"case_index": idx, "case": c.to_json(), "results": out}));
                    }
                    if let Some(v) = v {
                        if found.len() < 20 {
                            found.push(Found2 { index: idx, case: c.to_json(), violation: v });
                        }
                    }
                };
                // exhaustive part: every script of length <= exhaust_len x every single draw
                let nd = draws.len() as u64;
                let mut si = t as usize;
                while si < scripts.len() {
                    let s = &scripts[si];
                    for (di, d) in draws.iter().enumerate() {
                        // large gen_bytes on 65k scripts is wasteful; keep them for the short ones
                        if s.len() == 2 && matches!(d, Draw::Bytes(n) if *n > 16) {
                            continue;
                        }
                        run_case(SourceCase { entropy: Entropy::Bytes(s.clone()), draws: vec![d.clone()] }, si as u64 * nd + di as u64, &mut stats, &mut found);
                    }
                    si += nt as usize;
                }
                // sampled part: scripts of length 3..=16 at every cut, sequences of 1..6 draws; PRNG seeds
                let base = scripts.len() as u64 * nd;
                let mut i = t;
                while i < sampled {
                    let mut r = ChaCha8Rng::seed_from_u64(desc::derive_seed(seed, "C18.sampled", i));
                    let n = r.random_range(1..=6);
                    let ds: Vec<Draw> = (0..n).map(|_| draws[r.random_range(0..draws.len())].clone()).collect();
                    if r.random_range(0..4) == 0 {
                        run_case(SourceCase { entropy: Entropy::Rand(r.random()), draws: ds }, base + i * 32, &mut stats, &mut found);
                        stats.bump("source.rand_cases");
                    } else {
                        let len = r.random_range(3..=16);
                        let mut s = vec![0u8; len];
                        match r.random_range(0..4) {
                            0 => s.iter_mut().for_each(|b| *b = 0xff),
                            1 => s.iter_mut().for_each(|b| *b = 0),
                            _ => r.fill_bytes(&mut s),
                        }
                        for cut in 0..=len {
                            run_case(SourceCase { entropy: Entropy::Bytes(s[..cut].to_vec()), draws: ds.clone() }, base + i * 32 + cut as u64, &mut stats, &mut found);
                        }
                        stats.bump("fault.cut.every_prefix_of_script(scripts)");
                    }
                    i += nt;
                }
                (stats, found)
            }));
        }
        hs.into_iter().map(|h| h.join().unwrap()).collect()
    });
    let mut stats = Stats::default();
    let mut found = vec![];
    for (s, f) in parts {
        stats.merge(s);
        found.extend(f);
    }
    found.sort_by_key(|f| f.index);
    CompOutcome { stats, found, exhaustive_upto: exhaust_len }
}

/// PRNG-side boundary hunt: the upper bound of a half-open range is only produced by an inclusive
/// slip when the underlying uniform sample is maximal, i.e. with probability 1/(span+1) per draw.
/// For every span of the grid up to 2^32 + 1 enough draws are made on real `Rand` sources that the
/// top value would be hit several times (2^33.6 draws for the spans around 2^32, where the
/// sampling method of rand changes from 32-bit to 64-bit words).
pub fn prng_boundary_hunt(seed: u64, draws_wide: u64, stats: &mut Stats) -> Vec<Found2> {
    let mut spans: Vec<(usize, u64)> = vec![
        (2, 4_096),
        (3, 4_096),
        (255, 65_536),
        (256, 65_536),
        (257, 65_536),
        (65_536, 8_000_000),
        ((1usize << 32) - 1, draws_wide),
        (1usize << 32, draws_wide),
        ((1usize << 32) + 1, draws_wide),
    ];
    // rejection zones: a sampler that maps a w-bit word onto [0, n) rejects (or mishandles) a zone
    // of 2^w mod n values, i.e. with probability up to n / 2^(w+1) per draw - largest for n just
    // below a power of two of the word size and tiny for small n. Every magnitude class 2^k..2^(k+1)
    // gets seeded random spans (plus the span just above 2^k, the worst case of a k+1-bit word) with
    // enough draws that a zone of relative size 2^-33 * n is entered for the classes k >= 9.
    let per_class = (draws_wide / 2_000).clamp(400_000, 40_000_000);
    {
        let mut rng = ChaCha8Rng::seed_from_u64(desc::derive_seed(seed, "C18.hunt.spans", 0));
        for k in 2..=62u32 {
            let lo = 1usize << k;
            spans.push((lo + 1, per_class));
            for _ in 0..6 {
                spans.push((lo + rng.random_range(1..lo), per_class));
            }
        }
    }
    let nt = crate::engine::n_threads() as u64;
    let mut found = vec![];
    for (si, (span, draws)) in spans.iter().enumerate() {
        let per = draws / nt + 1;
        let res: Vec<(u64, u64, Option<(u64, u64, usize, usize, u8)>)> = std::thread::scope(|s| {
            let hs: Vec<_> = (0..nt)
                .map(|t| {
                    s.spawn(move || {
                        let sd = desc::derive_seed(seed, "C18.hunt", (si as u64) << 8 | t);
                        let mut rng = ChaCha8Rng::seed_from_u64(sd);
                        let mut src = GenerationSource::Rand(&mut rng);
                        // three call shapes: gen_range from 0, gen_range from 7, choose_index
                        let method = (t % 3) as u8;
                        let base = if method == 1 { 7usize } else { 0 };
                        let (mut top, mut n) = (0u64, 0u64);
                        let mut bad = None;
                        let cur = std::cell::Cell::new(0u64);
                        let r = std::panic::catch_unwind(std::panic::AssertUnwindSafe(|| {
                            for i in 0..per {
                                cur.set(i);
                                let x = if method == 2 { src.choose_index(*span) } else { src.gen_range(base, base + span) };
                                n += 1;
                                if x == base + span - 1 {
                                    top += 1;
                                }
                                if x < base || x >= base + span {
                                    bad = Some((sd, i, base, x, method));
                                    break;
                                }
                                if i % (1 << 22) == 0 {
                                    crate::engine::tick();
                                }
                            }
                        }));
                        if r.is_err() {
                            let _ = crate::exec::take_panic();
                            // a panic inside the draw (e.g. an arithmetic overflow): reported as an
                            // out-of-range result with the impossible value usize::MAX
                            bad = Some((sd, cur.get(), base, usize::MAX, method));
                        }
                        (n, top, bad)
                    })
                })
                .collect();
            hs.into_iter().map(|h| h.join().unwrap()).collect()
        });
        let mut tops = 0;
        for (n, top, bad) in res {
            stats.evaluations += n;
            tops += top;
            if let Some((sd, i, base, x, method)) = bad {
                if found.is_empty() {
                    let call = if method == 2 { format!("choose_index({})", span) } else { format!("gen_range({}, {})", base, base + span) };
                    found.push(Found2 {
                        index: i,
                        case: json!({"hunt": {"prng_seed": sd.to_string(), "draws_before": i.to_string(), "a": base.to_string(), "b": (base + span).to_string(), "method": if method == 2 { "choose_index" } else { "gen_range" }}}),
                        violation: Violation::new("C18", if method == 2 { "out-of-range(choose_index)" } else { "out-of-range(gen_range)" }, format!("PRNG source: {} returned {} on draw #{} of ChaCha8Rng::seed_from_u64({})", call, x, i, sd)),
                    });
                }
            }
        }
        if si < 9 {
            stats.add(&format!("probe.prng_draws_hitting_the_last_value_of_span_{}", span), tops);
        } else {
            stats.add("probe.prng_draws_hitting_the_last_value_of_a_magnitude_class_span", tops);
            stats.add("prng.magnitude_class_spans", 1);
        }
        if !found.is_empty() {
            break;
        }
    }
    // gen_ascii_char: a 95-entry table indexed by a bounded draw
    {
        let mut rng = ChaCha8Rng::seed_from_u64(desc::derive_seed(seed, "C18.hunt.ascii", 0));
        let mut src = GenerationSource::Rand(&mut rng);
        let n = (draws_wide / 400).min(50_000_000);
        let r = std::panic::catch_unwind(std::panic::AssertUnwindSafe(|| {
            let mut bad = None;
            for i in 0..n {
                let c = src.gen_ascii_char();
                if !(0x20..0x7f).contains(&(c as u32)) {
                    bad = Some((i, c as u32));
                    break;
                }
            }
            bad
        }));
        stats.evaluations += n;
        let _ = crate::exec::take_panic();
        match r {
            Ok(None) => {}
            Ok(Some((i, c))) if found.is_empty() => found.push(Found2 {
                index: i,
                case: json!({"hunt": {"prng_seed": desc::derive_seed(seed, "C18.hunt.ascii", 0).to_string(), "draws_before": i.to_string(), "method": "gen_ascii_char"}}),
                violation: Violation::new("C18", "out-of-range(gen_ascii_char)", format!("PRNG source: gen_ascii_char returned U+{:04X} on draw #{}", c, i)),
            }),
            Err(_) if found.is_empty() => found.push(Found2 {
                index: 0,
                case: json!({"hunt": {"prng_seed": desc::derive_seed(seed, "C18.hunt.ascii", 0).to_string(), "draws_before": n.to_string(), "method": "gen_ascii_char"}}),
                violation: Violation::new("C18", "panic(gen_ascii_char)", format!("PRNG source: gen_ascii_char panicked within {} draws", n)),
            }),
            _ => {}
        }
    }
    found
}

/// Extreme-word hunt: bounded draws go wrong when the *underlying PRNG word* is extremal (all ones,
/// zero, the sign boundary) - a 2^-32 event per draw whatever the span, out of reach of brute force
/// over many spans. The simulator owns the PRNG seam, so it looks for such words directly: it scans
/// `words` words of seeded ChaCha8 streams (cheap: no draw logic involved), notes every position
/// holding one of 8 extremal values, and then executes every bounded method over a grid of spans on
/// a generator positioned exactly there (and one word earlier, for draws that consume two words).
pub fn extreme_word_hunt(seed: u64, words: u64, stats: &mut Stats) -> Vec<Found2> {
    use rand::RngCore;
    const EXTREME: [u32; 8] = [0, 1, 0x7fff_ffff, 0x8000_0000, 0x8000_0001, 0xffff_fffd, 0xffff_fffe, 0xffff_ffff];
    let nt = crate::engine::n_threads() as u64;
    let per = words / nt;
    let hits: Vec<(u64, u64, u32)> = std::thread::scope(|s| {
        let hs: Vec<_> = (0..nt)
            .map(|t| {
                s.spawn(move || {
                    let sd = desc::derive_seed(seed, "C18.words", t);
                    let mut rng = ChaCha8Rng::seed_from_u64(sd);
                    let mut out = vec![];
                    let mut buf = [0u8; 4096];
                    let mut i = 0u64;
                    while i < per {
                        rng.fill_bytes(&mut buf);
                        for (k, c) in buf.chunks_exact(4).enumerate() {
                            let w = u32::from_le_bytes([c[0], c[1], c[2], c[3]]);
                            if w <= 1 || w >= 0xffff_fffd || (0x7fff_ffff..=0x8000_0001).contains(&w) {
                                out.push((sd, i + k as u64, w));
                            }
                        }
                        i += 1024;
                        if i % (1 << 26) == 0 {
                            crate::engine::tick();
                        }
                    }
                    out
                })
            })
            .collect();
        hs.into_iter().flat_map(|h| h.join().unwrap()).collect()
    });
    stats.add("prng.words_scanned_for_extreme_values", per * nt);
    for v in EXTREME {
        stats.add(&format!("probe.prng_word_0x{:08x}_positions", v), hits.iter().filter(|h| h.2 == v).count() as u64);
    }
    // the draws executed at each position
    let mut draws: Vec<Draw> = vec![Draw::AsciiChar, Draw::Bool, Draw::U8, Draw::U16, Draw::U32, Draw::I32, Draw::I64, Draw::F64];
    for n in [1usize, 2, 3, 5, 7, 10, 31, 32, 33, 95, 100, 255, 256, 257, 1000, 19_061, 65_535, 65_536, 65_537, (1 << 31) - 1, 1 << 31, (1 << 31) + 1, (1 << 32) - 1, 1 << 32, (1 << 32) + 1, 1 << 63, usize::MAX] {
        draws.push(Draw::ChooseIndex(n));
        draws.push(Draw::Range(0, n));
        if n < usize::MAX - 7 {
            draws.push(Draw::Range(7, 7 + n));
        }
    }
    let mut found = vec![];
    for (sd, pos, w) in &hits {
        for back in [0u64, 1] {
            if *pos < back {
                continue;
            }
            for d in &draws {
                let mut rng = ChaCha8Rng::seed_from_u64(*sd);
                rng.set_word_pos((*pos - back) as u128);
                let mut src = GenerationSource::Rand(&mut rng);
                stats.evaluations += 1;
                let r = std::panic::catch_unwind(std::panic::AssertUnwindSafe(|| do_draw(&mut src, d)));
                let err = match r {
                    Ok(Ok(_)) => None,
                    Ok(Err(e)) => Some(e),
                    Err(_) => Some(format!("panic: {}", crate::exec::take_panic())),
                };
                if let Some(e) = err {
                    if found.is_empty() {
                        let class = if e.starts_with("panic") { format!("panic({})", d.name()) } else { format!("out-of-range({})", d.name()) };
                        found.push(Found2 {
                            index: *pos,
                            case: json!({"hunt": {"prng_seed": sd.to_string(), "word_pos": (*pos - back).to_string(), "method": "at-word", "draw": d.to_json()}}),
                            violation: Violation::new("C18", class, format!("PRNG source positioned at word {} of ChaCha8Rng::seed_from_u64({}) (next words include 0x{:08x}): {}", pos - back, sd, w, e)),
                        });
                    }
                }
            }
        }
    }
    found
}

fn replay_at_word(h: &Value) -> Vec<Violation> {
    let g = |k: &str| h[k].as_str().and_then(|s| s.parse::<u64>().ok()).unwrap_or(0);
    let Some(d) = Draw::from_json(&h["draw"]) else { return vec![] };
    let mut rng = ChaCha8Rng::seed_from_u64(g("prng_seed"));
    rng.set_word_pos(g("word_pos") as u128);
    let mut src = GenerationSource::Rand(&mut rng);
    let r = std::panic::catch_unwind(std::panic::AssertUnwindSafe(|| do_draw(&mut src, &d)));
    match r {
        Ok(Ok(_)) => vec![],
        Ok(Err(e)) => vec![Violation::new("C18", format!("out-of-range({})", d.name()), e)],
        Err(_) => vec![Violation::new("C18", format!("panic({})", d.name()), crate::exec::take_panic())],
    }
}

fn replay_hunt(h: &Value) -> Vec<Violation> {
    if h["method"].as_str() == Some("at-word") {
        return replay_at_word(h);
    }
    let g = |k: &str| h[k].as_str().and_then(|s| s.parse::<u64>().ok()).unwrap_or(0);
    let (sd, n, a, b) = (g("prng_seed"), g("draws_before"), g("a") as usize, g("b") as usize);
    let method = h["method"].as_str().unwrap_or("gen_range").to_string();
    let mut rng = ChaCha8Rng::seed_from_u64(sd);
    let mut src = GenerationSource::Rand(&mut rng);
    let r = std::panic::catch_unwind(std::panic::AssertUnwindSafe(|| {
        for i in 0..=n {
            match method.as_str() {
                "gen_ascii_char" => {
                    let c = src.gen_ascii_char();
                    if !(0x20..0x7f).contains(&(c as u32)) {
                        return vec![Violation::new("C18", "out-of-range(gen_ascii_char)", format!("gen_ascii_char returned U+{:04X} on draw #{}", c as u32, i))];
                    }
                }
                "choose_index" => {
                    let x = src.choose_index(b - a);
                    if x >= b - a {
                        return vec![Violation::new("C18", "out-of-range(choose_index)", format!("choose_index({}) returned {} on draw #{}", b - a, x, i))];
                    }
                }
                _ => {
                    let x = src.gen_range(a, b);
                    if x < a || x >= b {
                        return vec![Violation::new("C18", "out-of-range(gen_range)", format!("gen_range({}, {}) returned {} on draw #{}", a, b, x, i))];
                    }
                }
            }
        }
        vec![]
    }));
    match r {
        Ok(v) => v,
        Err(_) => {
            let _ = crate::exec::take_panic();
            let class = match method.as_str() {
                "gen_ascii_char" => "panic(gen_ascii_char)",
                "choose_index" => "out-of-range(choose_index)",
                _ => "out-of-range(gen_range)",
            };
            vec![Violation::new("C18", class, format!("{} panicked within {} draws", method, n))]
        }
    }
}

// ------------------------------------------------------------------------------------------
// mutator methods called directly (C15 rate extremes, C16 contracts)

#[derive(Clone, Debug)]
pub struct MutCase {
    /// mutator kind index (MUT_NAMES)
    pub kind: u8,
    pub unsafe_mode: bool,
    pub input: SpyVal,
    pub rate: f64,
    pub entropy: Entropy,
    /// post_process only: the bytes the "emission" appended (Some = call post_process)
    pub post_tail: Option<Vec<u8>>,
}

fn spyval_json(v: &SpyVal) -> Value {
    match v {
        SpyVal::Int(x) => json!({"t": "int", "v": x.to_string()}),
        SpyVal::Long(x) => json!({"t": "long", "v": x.to_string()}),
        SpyVal::Float(x) => json!({"t": "float", "bits": format!("{:016x}", x.to_bits())}),
        SpyVal::Str(x) => json!({"t": "str", "v": x}),
        SpyVal::Bytes(x) => json!({"t": "bytes", "hex": desc::hex(x)}),
        SpyVal::Memo(x) => json!({"t": "memo", "v": x.to_string()}),
    }
}

fn spyval_from(v: &Value) -> Option<SpyVal> {
    let s = |k: &str| v.get(k)?.as_str().map(|x| x.to_string());
    Some(match v.get("t")?.as_str()? {
        "int" => SpyVal::Int(s("v")?.parse().ok()?),
        "long" => SpyVal::Long(s("v")?.parse().ok()?),
        "float" => SpyVal::Float(f64::from_bits(u64::from_str_radix(&s("bits")?, 16).ok()?)),
        "str" => SpyVal::Str(s("v")?),
        "bytes" => SpyVal::Bytes(desc::unhex(&s("hex")?).ok()?),
        "memo" => SpyVal::Memo(s("v")?.parse().ok()?),
        _ => return None,
    })
}

impl MutCase {
    pub fn to_json(&self) -> Value {
        json!({
            "mutator": crate::exec::mut_name(self.kind), "unsafe_mode": self.unsafe_mode, "input": spyval_json(&self.input),
            "rate_bits": format!("{:016x}", self.rate.to_bits()), "entropy": self.entropy.to_json(),
            "post_tail_hex": self.post_tail.as_ref().map(|t| desc::hex(t)),
        })
    }
    pub fn from_json(v: &Value) -> Option<Self> {
        let name = v.get("mutator")?.as_str()?;
        Some(MutCase {
            kind: desc::MUT_NAMES.iter().position(|n| *n == name)? as u8,
            unsafe_mode: v.get("unsafe_mode")?.as_bool()?,
            input: spyval_from(v.get("input")?)?,
            rate: f64::from_bits(u64::from_str_radix(v.get("rate_bits")?.as_str()?, 16).ok()?),
            entropy: Entropy::from_json(v.get("entropy")?).ok()?,
            post_tail: match v.get("post_tail_hex") {
                Some(Value::String(h)) => Some(desc::unhex(h).ok()?),
                _ => None,
            },
        })
    }
}

pub enum MutResult {
    Value(Option<SpyVal>),
    Post { fired: bool, before: Vec<u8>, after: Vec<u8>, snapshot_len: usize },
    Panic(String),
}

pub fn run_mut_case(c: &MutCase) -> MutResult {
    let m: Box<dyn Mutator> = mutator_kind(c.kind).create(c.unsafe_mode);
    let r = catch_unwind(AssertUnwindSafe(|| {
        with_source(&c.entropy, |src| match &c.post_tail {
            Some(tail) => {
                let prefix: Vec<u8> = vec![0x80, 0x04, b'N', b'0'];
                let mut out = prefix.clone();
                out.extend_from_slice(tail);
                let snap = EmissionSnapshot {
                    stack_depth: 0,
                    output_len: prefix.len(),
                    memo_size: 0,
                    stack_delta: Vec::new(),
                    output_delta: tail.clone(),
                    memo_delta: Vec::new(),
                };
                let before = out.clone();
                let fired = m.post_process(&snap, &mut out, src, c.rate);
                MutResult::Post { fired, before, after: out, snapshot_len: prefix.len() }
            }
            None => MutResult::Value(match &c.input {
                SpyVal::Int(v) => m.mutate_int(*v, src, c.rate).map(SpyVal::Int),
                SpyVal::Long(v) => m.mutate_long(*v, src, c.rate).map(SpyVal::Long),
                SpyVal::Float(v) => m.mutate_float(*v, src, c.rate).map(SpyVal::Float),
                SpyVal::Str(v) => m.mutate_string(v.clone(), src, c.rate).map(SpyVal::Str),
                SpyVal::Bytes(v) => m.mutate_bytes(v.clone(), src, c.rate).map(SpyVal::Bytes),
                SpyVal::Memo(v) => m.mutate_memo_index(*v, src, c.rate).map(SpyVal::Memo),
            }),
        })
    }));
    match r {
        Ok(x) => x,
        Err(_) => MutResult::Panic(crate::exec::take_panic()),
    }
}

fn method_name(v: &SpyVal) -> &'static str {
    match v {
        SpyVal::Int(_) => "mutate_int",
        SpyVal::Long(_) => "mutate_long",
        SpyVal::Float(_) => "mutate_float",
        SpyVal::Str(_) => "mutate_string",
        SpyVal::Bytes(_) => "mutate_bytes",
        SpyVal::Memo(_) => "mutate_memo_index",
    }
}

/// C15 on a direct call: rate 0 => nothing happens; rate 1 => applicable => mutated
pub fn eval_c15(c: &MutCase) -> Option<Violation> {
    let mode = if c.entropy.is_bytes() { "bytes" } else { "rand" };
    let name = crate::exec::mut_name(c.kind);
    match run_mut_case(c) {
        MutResult::Panic(_) => None, // C16's business
        MutResult::Value(out) => {
            if c.rate == 0.0 && out.is_some() {
                return Some(Violation::new(
                    "C15",
                    format!("fired-at-rate-0({},{},{})", name, c.input.kind(), mode),
                    format!("{}.{}({:?}) at rate 0 returned {:?}", name, method_name(&c.input), c.input, out),
                ));
            }
            if c.rate == 1.0 && out.is_none() && props::applicable(c.kind, &c.input) {
                return Some(Violation::new(
                    "C15",
                    format!("skipped-at-rate-1({},{},{})", name, c.input.kind(), mode),
                    format!("{}.{}({:?}) at rate 1 returned None", name, method_name(&c.input), c.input),
                ));
            }
            None
        }
        MutResult::Post { fired, before, after, .. } => {
            if c.rate == 0.0 && (fired || before != after) {
                return Some(Violation::new("C15", "rewrite-at-rate-0", format!("{}.post_process rewrote bytes at rate 0 ({} entropy)", name, mode)));
            }
            None
        }
    }
}

/// C16 on a direct call: whenever the mutator fires the result is within its contract; never panics
pub fn eval_c16(c: &MutCase) -> (bool, Option<Violation>) {
    let name = crate::exec::mut_name(c.kind);
    match run_mut_case(c) {
        MutResult::Panic(p) => (
            false,
            Some(Violation::new(
                "C16",
                format!("panic({},{})", name, if c.post_tail.is_some() { "post_process" } else { method_name(&c.input) }),
                p,
            )),
        ),
        MutResult::Value(None) => (false, None),
        MutResult::Value(Some(out)) => match props::contract_value(c.kind, c.unsafe_mode, &c.input, &out) {
            Ok(()) => (true, None),
            Err(clause) => {
                let cl = clause.split(':').next().unwrap_or("").to_string();
                (true, Some(Violation::new("C16", format!("contract({},{},{})", name, c.input.kind(), cl), clause)))
            }
        },
        MutResult::Post { fired, before, after, snapshot_len } => {
            let changed = before != after;
            if !fired && !changed {
                return (false, None);
            }
            let rec = crate::exec::SpyRec::Post {
                mi: 0,
                kind: c.kind,
                fired,
                snapshot_len,
                delta_first: c.post_tail.as_ref().and_then(|t| t.first().copied()),
                old_tail: before[snapshot_len.min(before.len())..].to_vec(),
                new_tail: after[snapshot_len.min(after.len())..].to_vec(),
                prefix_changed: after.len() < snapshot_len || after[..snapshot_len] != before[..snapshot_len],
                rate: c.rate,
            };
            match props::contract_post(c.kind, c.unsafe_mode, &rec) {
                Ok(()) => (true, None),
                Err(clause) => {
                    let cl = clause.split(':').next().unwrap_or("").to_string();
                    (true, Some(Violation::new("C16", format!("contract({},post,{})", name, cl), clause)))
                }
            }
        }
    }
}

fn value_grid(rng: &mut ChaCha8Rng) -> Vec<SpyVal> {
    let mut v = vec![];
    for x in [i32::MIN, i32::MIN + 1, -2, -1, 0, 1, 2, i32::MAX - 1, i32::MAX, 0x5555_5555, rng.random(), rng.random()] {
        v.push(SpyVal::Int(x));
    }
    for x in [i64::MIN, i64::MIN + 1, -1, 0, 1, i64::MAX - 1, i64::MAX, i32::MAX as i64 + 1, rng.random(), rng.random()] {
        v.push(SpyVal::Long(x));
    }
    for x in [0.0, -0.0, 1.0, -1.5, f64::NAN, f64::INFINITY, f64::MIN_POSITIVE, f64::MAX, rng.random::<f64>()] {
        v.push(SpyVal::Float(x));
    }
    let strs = ["", "a", "ab", "hello world", "\\'\"\n\t", "é", "日本語テキスト", "a\u{0301}b", "😀x"];
    for s in strs {
        v.push(SpyVal::Str(s.to_string()));
    }
    let n = rng.random_range(1..=64);
    v.push(SpyVal::Str((0..n).map(|_| rng.random_range(0x20u8..0x7f) as char).collect()));
    v.push(SpyVal::Str("x".repeat(64)));
    // lengths around the sizes of inline buffers, one-byte counts and page-sized scratch space;
    // multi-byte characters so that byte length and character count differ
    for n in [65usize, 128, 255, 256, 257, 4096] {
        v.push(SpyVal::Str("y".repeat(n)));
        v.push(SpyVal::Str("é".repeat(n)));
    }
    // strings made of the first and last printable characters (replacement logic that steps to a
    // neighbouring character leaves the printable range there)
    for c in [' ', '!', '}', '~'] {
        v.push(SpyVal::Str(c.to_string().repeat(8)));
    }
    // short values again after the long ones (scratch state left behind by a long value)
    v.push(SpyVal::Str("hello".to_string()));
    v.push(SpyVal::Str("z".to_string()));
    for n in [65usize, 255, 256, 257, 4096] {
        v.push(SpyVal::Bytes(vec![0xabu8; n]));
    }
    v.push(SpyVal::Bytes(vec![1, 2, 3]));
    for b in [vec![], vec![0u8], vec![0xff], vec![0, 0xff, 0x80, 0x7f], (0..64u8).collect::<Vec<u8>>()] {
        v.push(SpyVal::Bytes(b));
    }
    let n = rng.random_range(1..=64);
    v.push(SpyVal::Bytes((0..n).map(|_| rng.random()).collect()));
    for x in [0usize, 1, 2, 255, 256, 999, 1000, usize::MAX - 1, usize::MAX, rng.random_range(0..5000)] {
        v.push(SpyVal::Memo(x));
    }
    v
}

/// emissions to offer to post_process: value-pushing ones of every group and others
fn post_tails() -> Vec<Vec<u8>> {
    vec![
        b"I123\n".to_vec(),
        vec![0x4a, 1, 2, 3, 4],
        vec![0x4b, 7],
        vec![0x4d, 7, 0],
        b"L5L\n".to_vec(),
        vec![0x8a, 1, 5],
        b"F1.5\n".to_vec(),
        vec![0x47, 0, 0, 0, 0, 0, 0, 0, 0],
        b"S'ab'\n".to_vec(),
        b"Vab\n".to_vec(),
        vec![0x8c, 2, b'a', b'b'],
        vec![0x58, 1, 0, 0, 0, b'z'],
        vec![0x43, 1, 9],
        vec![0x42, 1, 0, 0, 0, 9],
        vec![0x55, 1, b'q'],
        vec![0x5d],
        vec![0x6c],
        vec![0x29],
        vec![0x74],
        vec![0x85],
        vec![0x86],
        vec![0x87],
        vec![0x7d],
        vec![0x64],
        vec![0x4e],
        vec![0x88],
        vec![0x89],
        // not value-pushing: must be left alone
        vec![0x28],
        vec![0x30],
        vec![0x32],
        vec![0x61],
        vec![0x94],
        vec![0x71, 3],
        b"cos\nsystem\n".to_vec(),
        vec![0x52],
        vec![0x8f],
        vec![0x96, 1, 0, 0, 0, 0, 0, 0, 0, 5],
        vec![],
    ]
}

/// entropy sources for a direct mutator call: Rand seeds, scripts of length 0..=16 with every
/// cut, hostile f64 patterns at the gate position and elsewhere
fn entropy_grid(rng: &mut ChaCha8Rng, n_random: usize) -> Vec<(Entropy, &'static str)> {
    let mut v: Vec<(Entropy, &'static str)> = vec![];
    for _ in 0..3 {
        v.push((Entropy::Rand(rng.random()), "rand"));
    }
    v.push((Entropy::Bytes(vec![]), "exhausted"));
    for (_, bits) in F64_PATTERNS.iter() {
        // the gate draws its f64 first: pattern at offset 0, followed by random bytes
        let mut s = bits.to_le_bytes().to_vec();
        let extra = rng.random_range(0..9);
        for _ in 0..extra {
            s.push(rng.random());
        }
        v.push((Entropy::Bytes(s.clone()), "hostile_f64_at_gate"));
        // cut inside the pattern (short read of the f64 itself)
        let cut = rng.random_range(1..8);
        v.push((Entropy::Bytes(s[..cut].to_vec()), "short_read_inside_f64"));
    }
    for _ in 0..n_random {
        let len = rng.random_range(1..=16);
        let mut s = vec![0u8; len];
        rng.fill_bytes(&mut s);
        if rng.random_range(0..3) == 0 {
            let (_, bits) = F64_PATTERNS[rng.random_range(0..F64_PATTERNS.len())];
            let at = rng.random_range(0..len);
            for (k, b) in bits.to_le_bytes().iter().enumerate() {
                if at + k < len {
                    s[at + k] = *b;
                }
            }
        }
        v.push((Entropy::Bytes(s), "random_script"));
    }
    v
}

/// hostile integer patterns: the little-endian image of every width / sign edge of the integer types
/// the mutators draw (i32, and its i8 / i16 / i24 sub-widths), placed at every offset 0..=12 of an
/// otherwise all-zero or all-ones script - whatever the mutator draws first (gate roll, choice
/// byte, direction), one of the offsets puts the edge value into its integer draw
pub const EDGE_I32: [i32; 22] = [
    i32::MIN, i32::MIN + 1, i32::MAX, i32::MAX - 1, -1, 0, 1, -128, -129, 127, 128, 255, 256, -32768, -32769, 32767, 32768, 65535, 65536, -8388608, -8388609, 8388607,
];

fn integer_edge_grid() -> Vec<(Entropy, &'static str)> {
    let mut v = vec![];
    // a source stuck at one byte value, for every value: every draw of the call yields the same
    // residue (the draw that collides with what is already there, twice in a row)
    for b in 0..=255u8 {
        v.push((Entropy::Bytes(vec![b; 24]), "stuck_byte_source"));
    }
    for bg in [0x00u8, 0xff] {
        for at in 0..=12usize {
            for e in EDGE_I32 {
                let mut s = vec![bg; at + 4 + 6];
                s[at..at + 4].copy_from_slice(&e.to_le_bytes());
                v.push((Entropy::Bytes(s), "hostile_integer_edge"));
            }
        }
    }
    v
}

/// comp sweep for C15 (rate extremes) or C16 (contracts); `rounds` independent value/entropy grids
pub fn sweep_mutators(prop: &'static str, seed: u64, rounds: u64) -> CompOutcome {
    // rounds are independent (each derives its own PRNG): run them on separate threads and merge in
    // round order, so that the result does not depend on the number of threads
    let nt = crate::engine::n_threads() as u64;
    let mut parts: Vec<(u64, Stats, Vec<Found2>)> = std::thread::scope(|s| {
        let hs: Vec<_> = (0..nt.min(rounds.max(1)))
            .map(|t| {
                s.spawn(move || {
                    let mut out = vec![];
                    let mut r = t;
                    while r < rounds {
                        let (st, f) = sweep_mutators_round(prop, seed, r);
                        out.push((r, st, f));
                        r += nt;
                    }
                    out
                })
            })
            .collect();
        hs.into_iter().flat_map(|h| h.join().unwrap()).collect()
    });
    parts.sort_by_key(|p| p.0);
    let mut stats = Stats::default();
    let mut found = vec![];
    for (_, st, f) in parts {
        stats.merge(st);
        found.extend(f);
    }
    found.truncate(20);
    CompOutcome { stats, found, exhaustive_upto: 0 }
}

fn sweep_mutators_round(prop: &'static str, seed: u64, round: u64) -> (Stats, Vec<Found2>) {
    let mut stats = Stats::default();
    let mut found: Vec<Found2> = vec![];
    // one representative call per (mutator, value) of this round, in execution order (candidates
    // for the "after" part of a replay)
    let mut earlier: Vec<MutCase> = vec![];
    let mut earlier_seen = std::collections::HashSet::new();
    let mut distinct = std::collections::HashSet::new();
    let mut idx = round << 32;
    {
        let mut rng = ChaCha8Rng::seed_from_u64(desc::derive_seed(seed, &format!("{}.comp", prop), round));
        let values = value_grid(&mut rng);
        let mut entropies = entropy_grid(&mut rng, 6);
        entropies.extend(integer_edge_grid());
        let rates: Vec<f64> = if prop == "C15" { vec![0.0, 1.0] } else { vec![1.0, 1.0, 0.5, rng.random::<f64>()] };
        for kind in 0..7u8 {
            for unsafe_mode in [false, true] {
                if unsafe_mode && !(kind == 5 || kind == 6) {
                    continue; // only memoindex / typeconfusion look at the mode
                }
                for &rate in &rates {
                    for (e, label) in &entropies {
                        // value methods
                        for val in &values {
                            let c = MutCase { kind, unsafe_mode, input: val.clone(), rate, entropy: e.clone(), post_tail: None };
                            if found.is_empty() && rate == 1.0 && earlier_seen.insert((kind, spyval_json(val).to_string())) {
                                earlier.push(c.clone());
                            }
                            idx += 1;
                            stats.evaluations += 1;
                            if idx % 256 == 0 {
                                crate::engine::tick();
                            }
                            let v = if prop == "C15" {
                                eval_c15(&c)
                            } else {
                                let (fired, v) = eval_c16(&c);
                                if fired {
                                    stats.bump("c16.comp.mutations_checked");
                                    distinct.insert(desc::digest(c.to_json().to_string().as_bytes()));
                                }
                                v
                            };
                            if prop == "C15" && e.is_bytes() {
                                distinct.insert(desc::digest(c.to_json().to_string().as_bytes()));
                            }
                            stats.bump(&format!("fault.{}.calls", label));
                            if stats.samples.len() < 2 && idx % 7919 == 11 {
                                stats.samples.push(json!({"comp_case": c.to_json()}));
                            }
                            if let Some(v) = v {
                                if found.len() < 20 {
                                    found.push(Found2 { index: idx, case: c.to_json(), violation: v });
                                }
                            }
                        }
                        // post_process
                        for tail in post_tails() {
                            let c = MutCase { kind, unsafe_mode, input: SpyVal::Int(0), rate, entropy: e.clone(), post_tail: Some(tail) };
                            idx += 1;
                            stats.evaluations += 1;
                            let v = if prop == "C15" {
                                eval_c15(&c)
                            } else {
                                let (fired, v) = eval_c16(&c);
                                if fired {
                                    stats.bump("c16.comp.rewrites_checked");
                                    distinct.insert(desc::digest(c.to_json().to_string().as_bytes()));
                                }
                                v
                            };
                            if let Some(v) = v {
                                if found.len() < 20 {
                                    found.push(Found2 { index: idx, case: c.to_json(), violation: v });
                                }
                            }
                        }
                    }
                }
            }
        }
    }
    stats.nontrivial = distinct;
    if let Some(f) = found.first_mut() {
        stabilise(prop, f, &earlier);
    }
    (stats, found)
}

/// evaluate `c` on a fresh thread after executing the cases of `after` there (mutators may keep
/// per-thread scratch state: a case that only fails after another one needs both in its replay)
fn eval_on_fresh_thread(prop: &str, after: &[MutCase], c: &MutCase) -> Option<Violation> {
    let prop = prop.to_string();
    let after: Vec<MutCase> = after.to_vec();
    let c = c.clone();
    std::thread::spawn(move || {
        for a in &after {
            let _ = run_mut_case(a);
        }
        if prop == "C15" {
            eval_c15(&c)
        } else {
            eval_c16(&c).1
        }
    })
    .join()
    .ok()
    .flatten()
}

/// a found case that does not fail when executed alone on a fresh thread depends on what the
/// thread executed before: look for one earlier case of the same round that makes it fail again and
/// record it in the replay (`after`)
fn stabilise(prop: &'static str, f: &mut Found2, earlier: &[MutCase]) {
    let Some(c) = MutCase::from_json(&f.case) else { return };
    if eval_on_fresh_thread(prop, &[], &c).is_some_and(|v| v.class == f.violation.class) {
        return;
    }
    for a in earlier.iter().filter(|a| a.kind == c.kind) {
        if eval_on_fresh_thread(prop, std::slice::from_ref(a), &c).is_some_and(|v| v.class == f.violation.class) {
            if let Some(o) = f.case.as_object_mut() {
                o.insert("after".into(), json!([a.to_json()]));
            }
            f.violation.detail = format!("{} (only after an earlier call on the same thread: {})", f.violation.detail, a.to_json());
            return;
        }
    }
}

/// replay of a comp case
pub fn replay(prop: &str, case: &Value) -> Vec<Violation> {
    match prop {
        "C18" if case.get("hunt").is_some() => replay_hunt(&case["hunt"]),
        "C18" => SourceCase::from_json(case).and_then(|c| eval_source_case(&c).1).into_iter().collect(),
        "C15" | "C16" => {
            let Some(c) = MutCase::from_json(case) else { return vec![] };
            let after: Vec<MutCase> = case.get("after").and_then(|a| a.as_array()).map(|a| a.iter().filter_map(MutCase::from_json).collect()).unwrap_or_default();
            eval_on_fresh_thread(prop, &after, &c).into_iter().collect()
        }
        _ => vec![],
    }
}
