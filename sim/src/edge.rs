//! Boundary-directed runs (DESIGN §2.3 `edge`): three systematic families in which the simulator
//! places a hostile *value* exactly where the generator reads it, instead of waiting for a random
//! script to line up.
//!
//!  * threshold runs — a stuck source drives one state dimension (stack depth, open MARKs, memo size)
//!    to exactly T-1, T or T+1 for the one-byte threshold T = 256; then every next opcode is executed
//!    on that state with edge-valued first argument bytes (0, 1, 0x7f, 0x80, 0xfd, 0xfe, 0xff), with
//!    and without a mutator that fires on every value;
//!  * argument sweeps — from four shallow stack shapes every opcode is emitted once with the
//!    little-endian image of every integer width/sign edge at every offset of its argument window
//!    (optionally behind one sub-choice byte), again with and without each mutator at rate 1;
//!  * table sweeps — the data-table draw of GLOBAL is swept over all 65 536 two-byte values inside
//!    short consumer programs (REDUCE, NEWOBJ, BUILD, ...), so that every table entry meets every
//!    consumer once.
//!
//! All tables are measured on the real generator (trajectories from the simulated-state snapshots of
//! the `verif` hooks, byte consumption from the entropy counter) and cached per process.

use crate::desc::{self, Config, Entropy, Fault, Scenario};
use crate::engine::{self, SoloSpec, Tier};
use crate::exec::{self, Trace};
use pickle_fuzzer::verif::{Event, Phase, K_MARK};
use std::collections::HashMap;
use std::sync::{Mutex, OnceLock};

pub const EDGE_BYTES: [u8; 7] = [0x00, 0x01, 0x7f, 0x80, 0xfd, 0xfe, 0xff];
pub const FILLS: [u8; 2] = [0x00, 0xff];

/// little-endian images of the integer edges
pub fn edge_images() -> &'static Vec<Vec<u8>> {
    static E: OnceLock<Vec<Vec<u8>>> = OnceLock::new();
    E.get_or_init(|| {
        let mut v: Vec<Vec<u8>> = crate::comp::EDGE_I32.iter().map(|e| e.to_le_bytes().to_vec()).collect();
        for e in [i64::MIN, i64::MAX, i64::MIN + 1] {
            v.push(e.to_le_bytes().to_vec());
        }
        v
    })
}

// ------------------------------------------------------------------------------------------
// mutator configurations used by the edge runs

#[derive(Clone, Copy, Debug, PartialEq, Eq, Hash)]
pub struct MutCfg {
    /// index into desc::MUT_NAMES, or 255 for "no mutators"
    pub kind: u8,
    pub unsafe_mode: bool,
}

impl MutCfg {
    pub const NONE: MutCfg = MutCfg { kind: 255, unsafe_mode: false };
    fn apply(&self, c: &mut Config) {
        if self.kind != 255 {
            c.mutators = vec![self.kind];
            c.rate = 1.0;
            c.rate_via_field = false;
            c.unsafe_mutations = self.unsafe_mode;
        }
    }
    fn name(&self) -> String {
        if self.kind == 255 {
            "no mutators".into()
        } else {
            format!("{} at rate 1{}", desc::MUT_NAMES[self.kind as usize], if self.unsafe_mode { " (unsafe)" } else { "" })
        }
    }
}

fn threshold_mutcfgs(spec: &SoloSpec) -> Vec<MutCfg> {
    match spec.prop {
        // offbyone, memoindex, boundary: the mutators that rewrite memo indices
        "C02" => vec![MutCfg::NONE, MutCfg { kind: 2, unsafe_mode: false }, MutCfg { kind: 5, unsafe_mode: false }, MutCfg { kind: 1, unsafe_mode: false }],
        _ => vec![MutCfg::NONE],
    }
}

fn sweep_mutcfgs(spec: &SoloSpec) -> Vec<MutCfg> {
    let mut v: Vec<MutCfg> = (0..7u8).map(|k| MutCfg { kind: k, unsafe_mode: false }).collect();
    if spec.profile.allow_unsafe {
        v.push(MutCfg { kind: 5, unsafe_mode: true });
        v.push(MutCfg { kind: 6, unsafe_mode: true });
    }
    v
}

fn enabled(spec: &SoloSpec) -> bool {
    !matches!(spec.prop, "C14" | "C08")
}

// ------------------------------------------------------------------------------------------
// threshold runs

const T: usize = 256;
/// objectives (index into engine::OBJECTIVES): stack depth, open MARKs, memo size
const THR_OBJ: [usize; 3] = [1, 2, 3];

fn threshold_objs(spec: &SoloSpec) -> &'static [usize] {
    match spec.prop {
        "C02" => &THR_OBJ[2..],
        _ => &THR_OBJ,
    }
}

fn threshold_args(spec: &SoloSpec) -> Vec<(u8, u8)> {
    let a0: &[u8] = if spec.prop == "C02" { &EDGE_BYTES } else { &[0x00, 0x80, 0xff] };
    let mut v = vec![];
    for &a in a0 {
        for f in FILLS {
            v.push((a, f));
        }
    }
    v
}

pub fn threshold_count(spec: &SoloSpec, _tier: Tier) -> u64 {
    if !enabled(spec) {
        return 0;
    }
    (threshold_objs(spec).len() * 6 * 3 * threshold_mutcfgs(spec).len() * 64 * threshold_args(spec).len()) as u64
}

#[derive(Clone, Debug)]
struct ThrEntry {
    n_ops: usize,
    used: usize,
    pre: Vec<u8>,
    pat: Vec<u8>,
}

/// (body opcodes, script bytes) after which objective `obj` first equals T-1, T, T+1 when protocol
/// `p` runs the best stuck pattern of that objective under mutator configuration `m`
fn threshold_entry(seed: u64, p: u8, obj: usize, m: MutCfg) -> [Option<ThrEntry>; 3] {
    static CACHE: OnceLock<Mutex<HashMap<(u64, u8, usize, MutCfg), [Option<ThrEntry>; 3]>>> = OnceLock::new();
    let cache = CACHE.get_or_init(|| Mutex::new(HashMap::new()));
    if let Some(v) = cache.lock().unwrap().get(&(seed, p, obj, m)) {
        return v.clone();
    }
    let pats = engine::deep_patterns(seed);
    let mut idx: Vec<usize> = (0..pats.len()).filter(|&i| pats[i].protocol == p && !pats[i].once && !pats[i].pat.is_empty() && pats[i].score[obj] >= 300).collect();
    idx.sort_by(|&a, &b| pats[b].score[obj].cmp(&pats[a].score[obj]).then(pats[a].pat.cmp(&pats[b].pat)).then(pats[a].pre.cmp(&pats[b].pre)));
    let mut out: [Option<ThrEntry>; 3] = [None, None, None];
    if let Some(&pi) = idx.first() {
        let pat = &pats[pi];
        let probe = 800usize;
        let mut c = Config::default_for(p);
        c.min_opcodes = probe;
        c.max_opcodes = probe;
        m.apply(&mut c);
        let total = probe * 12 + 64;
        let sc = Scenario::solo(c.clone(), Entropy::Bytes(engine::pattern_bytes(&pat.pre, &pat.pat, total)));
        let recs = exec::run_scenario(&sc, Trace::Full, false);
        // value of the objective *before* the k-th body opcode = after k body opcodes
        let mut first: [Option<usize>; 3] = [None, None, None];
        if let Some(r) = recs.first() {
            let mut in_body = false;
            let mut k = 0usize;
            for e in &r.events {
                match e {
                    Event::Phase { phase, .. } => match phase {
                        Phase::Target => in_body = true,
                        Phase::BodyDone => in_body = false,
                        _ => {}
                    },
                    Event::Op { depth, kinds, memo, .. } if in_body => {
                        let val = match obj {
                            1 => Some(*depth),
                            2 => kinds.as_ref().map(|ks| ks.iter().filter(|x| **x == K_MARK).count()),
                            _ => memo.as_ref().map(|m| m.len()),
                        };
                        if let Some(v) = val {
                            for d in 0..3 {
                                if v == T - 1 + d && first[d].is_none() {
                                    first[d] = Some(k);
                                }
                            }
                        }
                        k += 1;
                    }
                    _ => {}
                }
            }
        }
        for d in 0..3 {
            let Some(n) = first[d] else { continue };
            if n == 0 {
                continue;
            }
            // bytes consumed by exactly n body opcodes under the same configuration
            let mut c2 = c.clone();
            c2.min_opcodes = n;
            c2.max_opcodes = n;
            let sc2 = Scenario::solo(c2, Entropy::Bytes(engine::pattern_bytes(&pat.pre, &pat.pat, total)));
            let recs2 = exec::run_scenario(&sc2, Trace::Light, false);
            let mut used = None;
            if let Some(r) = recs2.first() {
                for e in &r.events {
                    if let Event::Phase { phase: Phase::BodyDone, entropy_left: Some(l), .. } = e {
                        used = Some(total - *l);
                    }
                }
            }
            if let Some(u) = used {
                out[d] = Some(ThrEntry { n_ops: n, used: u, pre: pat.pre.clone(), pat: pat.pat.clone() });
            }
        }
    }
    cache.lock().unwrap().insert((seed, p, obj, m), out.clone());
    out
}

pub fn threshold_scenario(spec: &SoloSpec, seed: u64, k: u64) -> Scenario {
    let args = threshold_args(spec);
    let muts = threshold_mutcfgs(spec);
    let objs = threshold_objs(spec);
    let per = (64 * args.len()) as u64;
    let e = k / per;
    let r = k % per;
    let b = (r % 64) as u8;
    let (a0, fill) = args[(r / 64) as usize];
    let m = muts[(e % muts.len() as u64) as usize];
    let e = e / muts.len() as u64;
    let d = (e % 3) as usize;
    let e = e / 3;
    let p = (e % 6) as u8;
    let obj = objs[((e / 6) as usize) % objs.len()];
    let entry = threshold_entry(seed, p, obj, m);
    let Some(t) = &entry[d] else {
        // the dimension does not reach the threshold in this protocol: an ordinary short run instead
        let mut c = Config::default_for(p);
        m.apply(&mut c);
        return Scenario::solo(c, Entropy::Bytes(vec![b, a0, fill, fill, fill, fill]));
    };
    let mut script = engine::pattern_bytes(&t.pre, &t.pat, t.used);
    script.push(b);
    script.push(a0);
    script.extend(std::iter::repeat(fill).take(40));
    let mut c = Config::default_for(p);
    c.min_opcodes = t.n_ops + 1;
    c.max_opcodes = t.n_ops + 1;
    m.apply(&mut c);
    let mut sc = Scenario::solo(c, Entropy::Bytes(script));
    sc.faults.push(Fault {
        kind: "threshold",
        at: t.used,
        detail: format!(
            "stuck script {:02x?} (prefix {:02x?}) for {} opcodes brings {} to {}; then choice byte 0x{:02x}, argument byte 0x{:02x}, fill 0x{:02x}; {}",
            t.pat,
            t.pre,
            t.n_ops,
            engine::OBJECTIVES[obj],
            T - 1 + d,
            b,
            a0,
            fill,
            m.name()
        ),
    });
    sc
}

// ------------------------------------------------------------------------------------------
// argument sweeps

const SWEEP_PREFIXES: [&[&str]; 4] = [&[], &["NONE"], &["MARK"], &["EMPTY_TUPLE"]];

/// steering bytes for (protocol, prefix) under the decision-tree configuration; cached
fn prefix_script(p: u8, pi: usize) -> Option<Vec<u8>> {
    static CACHE: OnceLock<Mutex<HashMap<(u8, usize), Option<Vec<u8>>>>> = OnceLock::new();
    let cache = CACHE.get_or_init(|| Mutex::new(HashMap::new()));
    if let Some(v) = cache.lock().unwrap().get(&(p, pi)) {
        return v.clone();
    }
    let prog = crate::synth::Program { ops: SWEEP_PREFIXES[pi].to_vec() };
    let v = crate::synth::steer(p, &prog);
    cache.lock().unwrap().insert((p, pi), v.clone());
    v
}

/// sub-sweep 1: no mutators; optional sub-choice byte c (none, 0..15) before the edge image
fn sweep1_count() -> u64 {
    (6 * SWEEP_PREFIXES.len() * 64 * 17 * edge_images().len() * FILLS.len()) as u64
}

/// sub-sweep 2: every mutator at rate 1; the edge image at every offset 0..=12 of the window
fn sweep2_count(spec: &SoloSpec) -> u64 {
    (6 * 2 * 64 * 13 * edge_images().len() * FILLS.len() * sweep_mutcfgs(spec).len()) as u64
}

pub fn argsweep_count(spec: &SoloSpec, _tier: Tier) -> u64 {
    if !enabled(spec) {
        return 0;
    }
    sweep1_count() + sweep2_count(spec)
}

pub fn argsweep_scenario(spec: &SoloSpec, k: u64) -> Scenario {
    let edges = edge_images();
    let (p, pi, b, lead, edge, fill, m): (u8, usize, u8, Vec<u8>, &Vec<u8>, u8, MutCfg);
    if k < sweep1_count() {
        let mut r = k;
        fill = FILLS[(r % 2) as usize];
        r /= 2;
        edge = &edges[(r % edges.len() as u64) as usize];
        r /= edges.len() as u64;
        let c = (r % 17) as u8;
        r /= 17;
        b = (r % 64) as u8;
        r /= 64;
        pi = (r % SWEEP_PREFIXES.len() as u64) as usize;
        r /= SWEEP_PREFIXES.len() as u64;
        p = (r % 6) as u8;
        lead = if c == 16 { vec![] } else { vec![c] };
        m = MutCfg::NONE;
    } else {
        let muts = sweep_mutcfgs(spec);
        let mut r = k - sweep1_count();
        fill = FILLS[(r % 2) as usize];
        r /= 2;
        edge = &edges[(r % edges.len() as u64) as usize];
        r /= edges.len() as u64;
        let off = (r % 13) as usize;
        r /= 13;
        b = (r % 64) as u8;
        r /= 64;
        pi = (r % 2) as usize;
        r /= 2;
        p = (r % 6) as u8;
        r /= 6;
        m = muts[(r as usize) % muts.len()];
        lead = vec![fill; off];
    }
    let depth = SWEEP_PREFIXES[pi].len();
    let mut c = engine::tree_config(p, depth + 3);
    m.apply(&mut c);
    let Some(mut script) = prefix_script(p, pi) else {
        return Scenario::solo(c, Entropy::Bytes(vec![b]));
    };
    // protocols >= 4: the first script byte is the framing decision; both variants in turn
    if p >= 4 && !script.is_empty() && k % 2 == 1 {
        script[0] = 1;
    }
    let at = script.len();
    script.push(b);
    script.extend_from_slice(&lead);
    script.extend_from_slice(edge);
    script.extend(std::iter::repeat(fill).take(24));
    let mut sc = Scenario::solo(c, Entropy::Bytes(script));
    sc.faults.push(Fault {
        kind: "edge",
        at,
        detail: format!(
            "after the steered prefix {:?}: choice byte 0x{:02x}, {} lead byte(s) {:02x?}, integer edge image {}, fill 0x{:02x}; {}",
            SWEEP_PREFIXES[pi],
            b,
            lead.len(),
            lead,
            desc::hex(edge),
            fill,
            m.name()
        ),
    });
    sc
}

// ------------------------------------------------------------------------------------------
// table sweeps

/// consumer programs around one GLOBAL: the callable meets REDUCE with each argument shape (empty,
/// one scalar, one container, two), NEWOBJ, BUILD, OBJ and the memo
const TABLE_PROGRAMS: [&[&str]; 10] = [
    &["GLOBAL", "EMPTY_TUPLE", "REDUCE"],
    &["GLOBAL", "NONE", "TUPLE1", "REDUCE"],
    &["GLOBAL", "EMPTY_LIST", "TUPLE1", "REDUCE"],
    &["GLOBAL", "EMPTY_TUPLE", "NEWOBJ"],
    &["GLOBAL", "NONE", "NONE", "TUPLE2", "REDUCE"],
    &["GLOBAL", "NONE", "BUILD"],
    &["GLOBAL", "EMPTY_TUPLE", "REDUCE", "EMPTY_DICT", "BUILD"],
    &["MARK", "GLOBAL", "OBJ"],
    &["MARK", "GLOBAL", "NONE", "OBJ"],
    &["GLOBAL", "BINPUT", "POP", "BINGET"],
];

/// steering bytes of (protocol, program) and the offset of GLOBAL's first argument byte
fn table_script(p: u8, gi: usize) -> Option<(Vec<u8>, usize)> {
    static CACHE: OnceLock<Mutex<HashMap<(u8, usize), Option<(Vec<u8>, usize)>>>> = OnceLock::new();
    let cache = CACHE.get_or_init(|| Mutex::new(HashMap::new()));
    if let Some(v) = cache.lock().unwrap().get(&(p, gi)) {
        return v.clone();
    }
    let ops = TABLE_PROGRAMS[gi];
    let g = ops.iter().position(|o| *o == "GLOBAL").unwrap_or(0);
    let v = (|| {
        let before = crate::synth::steer(p, &crate::synth::Program { ops: ops[..g].to_vec() })?;
        let full = crate::synth::steer(p, &crate::synth::Program { ops: ops.to_vec() })?;
        // the selector byte of GLOBAL follows the bytes of the ops before it
        if full.len() < before.len() + 3 || full[..before.len()] != before[..] {
            return None;
        }
        Some((full, before.len() + 1))
    })();
    cache.lock().unwrap().insert((p, gi), v.clone());
    v
}

pub fn table_count(spec: &SoloSpec, tier: Tier) -> u64 {
    if !enabled(spec) {
        return 0;
    }
    let progs = match (spec.prop, tier) {
        ("C11", _) | (_, Tier::Thorough) => TABLE_PROGRAMS.len(),
        _ => 4,
    };
    (progs * 6 * 65_536) as u64
}

pub fn table_scenario(_spec: &SoloSpec, k: u64) -> Scenario {
    let v = (k % 65_536) as u16;
    let r = k / 65_536;
    let p = (r % 6) as u8;
    let gi = ((r / 6) as usize) % TABLE_PROGRAMS.len();
    let ops = TABLE_PROGRAMS[gi];
    let c = engine::tree_config(p, ops.len());
    let Some((mut script, at)) = table_script(p, gi) else {
        return Scenario::solo(c, Entropy::Bytes(v.to_be_bytes().to_vec()));
    };
    script[at] = (v >> 8) as u8;
    script[at + 1] = (v & 0xff) as u8;
    if p >= 4 && v % 2 == 1 {
        script[0] = 1; // framed variant
    }
    let mut sc = Scenario::solo(c, Entropy::Bytes(script));
    sc.faults.push(Fault { kind: "table", at, detail: format!("steered program {:?} with GLOBAL's table draw bytes set to {:04x}", ops, v) });
    sc
}

// ------------------------------------------------------------------------------------------
// table entries x consumer x next opcode

/// upper bound on the number of distinct GLOBAL table entries (the shipped table has 19 061)
const TABLE_BOUND: usize = 20_000;
const NEXT_PROGRAMS: [usize; 3] = [0, 3, 1]; // GLOBAL () REDUCE | GLOBAL () NEWOBJ | GLOBAL None TUPLE1 REDUCE

/// one two-byte draw value per distinct table entry of protocol `p` (first value that selects it),
/// measured by emitting GLOBAL once for each of the 65 536 values
fn table_entries(p: u8) -> &'static Vec<u16> {
    static CACHE: OnceLock<Mutex<HashMap<u8, &'static Vec<u16>>>> = OnceLock::new();
    let cache = CACHE.get_or_init(|| Mutex::new(HashMap::new()));
    if let Some(v) = cache.lock().unwrap().get(&p) {
        return v;
    }
    let mut out: Vec<u16> = vec![];
    if let Some((script, at)) = table_script(p, 0) {
        let mut seen: std::collections::HashSet<Vec<u8>> = std::collections::HashSet::new();
        let c = engine::tree_config(p, 1);
        for v in 0..=65_535u16 {
            let mut s = script[..(at + 2).min(script.len())].to_vec();
            if s.len() < at + 2 {
                break;
            }
            s[at] = (v >> 8) as u8;
            s[at + 1] = (v & 0xff) as u8;
            s.extend_from_slice(&[0u8; 8]);
            let sc = Scenario::solo(c.clone(), Entropy::Bytes(s));
            let recs = exec::run_scenario(&sc, Trace::Off, false);
            let Some(o) = recs.first().and_then(|r| r.outcome.bytes()) else { continue };
            // the text argument of the first GLOBAL in the output
            if let Some(i) = o.iter().position(|b| *b == b'c') {
                let mut nl = 0;
                let key: Vec<u8> = o[i + 1..]
                    .iter()
                    .copied()
                    .take(400)
                    .take_while(|b| {
                        if *b == b'\n' {
                            nl += 1;
                        }
                        nl < 2
                    })
                    .collect();
                if seen.insert(key) {
                    out.push(v);
                }
            }
        }
    }
    let leaked: &'static Vec<u16> = Box::leak(Box::new(out));
    cache.lock().unwrap().insert(p, leaked);
    leaked
}

pub struct ExploreOutcome {
    pub found: Vec<engine::Found>,
    pub runs: u64,
    pub entries: usize,
    pub menus: usize,
    pub anomalous_entries: usize,
    pub deep_runs: u64,
}

/// Anomaly-directed exploration of the GLOBAL table (C01 / C03 / C17): every table entry is put
/// into three consumer programs and followed by every next choice byte 0..63; each run is judged by
/// the property's oracle and the *menu* (which opcode each choice byte selected) is recorded. The
/// menu after a program depends only on the kinds on the simulated stack, so it is the same for
/// every entry - unless the generator models some callable specially. The entry's signature is the
/// menu plus the simulated stack (depth and top kinds, from the K2 snapshot) the program left behind. Entries whose menu differs
/// from the modal one are then explored two further choices deep (three for the first few), every
/// run judged. The model-free signal only directs the search; verdicts come from the oracle.
pub fn table_explore(prop: &'static str, known: &[engine::KnownFinding], stats: &mut engine::Stats) -> ExploreOutcome {
    let spec = engine::solo_spec(prop).expect("solo property");
    let nt = engine::n_threads();
    let mut out = ExploreOutcome { found: vec![], runs: 0, entries: 0, menus: 0, anomalous_entries: 0, deep_runs: 0 };
    for &gi in NEXT_PROGRAMS.iter() {
        let ops = TABLE_PROGRAMS[gi];
        let len = ops.len();
        for p in [2u8, 4] {
            let entries = table_entries(p);
            let Some((base, at)) = table_script(p, gi) else { continue };
            out.entries = out.entries.max(entries.len());
            // level 1: (entry, t) for the entries of this protocol's half
            let half: Vec<(usize, u16)> = entries.iter().copied().enumerate().filter(|(e, _)| (e % 2 == 0) == (p == 4)).collect();
            let parts: Vec<(Vec<(usize, Vec<u8>)>, Vec<engine::Found>, engine::Stats, u64)> = std::thread::scope(|s| {
                let half = &half;
                let base = &base;
                let spec = &spec;
                (0..nt)
                    .map(|t| {
                        s.spawn(move || {
                            let mut menus = vec![];
                            let mut found = vec![];
                            let mut st = engine::Stats::default();
                            let mut runs = 0u64;
                            let mut i = t;
                            while i < half.len() {
                                let (e, v) = half[i];
                                let mut script = base.clone();
                                script[at] = (v >> 8) as u8;
                                script[at + 1] = (v & 0xff) as u8;
                                let mut menu = vec![0u8; 64];
                                for b in 0..64u8 {
                                    let mut s2 = script.clone();
                                    s2.push(b);
                                    // the first run of an entry is traced in full: the simulated stack
                                    // kinds the program left behind are part of the entry's signature
                                    let tr = if b == 0 { Trace::Full } else { spec.trace };
                                    let (mut sc, recs, body, _) = engine::tree_probe_with(p, &s2, len + 1, tr);
                                    runs += 1;
                                    menu[b as usize] = body.get(len).copied().unwrap_or(0);
                                    if b == 0 {
                                        if let Some(r) = recs.first() {
                                            let mut in_body = false;
                                            let mut k = 0usize;
                                            for ev in &r.events {
                                                match ev {
                                                    Event::Phase { phase: Phase::Target, .. } => in_body = true,
                                                    Event::Phase { phase: Phase::BodyDone, .. } => in_body = false,
                                                    Event::Op { depth, kinds, .. } if in_body => {
                                                        if k == len {
                                                            menu.push(0xfe);
                                                            menu.push(*depth as u8);
                                                            if let Some(ks) = kinds {
                                                                menu.extend(ks.iter().rev().take(6));
                                                            }
                                                        }
                                                        k += 1;
                                                    }
                                                    _ => {}
                                                }
                                            }
                                        }
                                    }
                                    for v in engine::evaluate_any(prop, &sc, &recs, &mut st) {
                                        if engine::known_match(known, &v).is_none() && found.len() < 4 {
                                            sc.faults.push(Fault { kind: "table", at, detail: format!("program {:?} with table entry #{}, then choice byte 0x{:02x}", ops, e, b) });
                                            found.push(engine::Found { index: e as u64, scenario: sc.clone(), violation: v });
                                        }
                                    }
                                }
                                menus.push((e, menu));
                                i += nt;
                            }
                            (menus, found, st, runs)
                        })
                    })
                    .collect::<Vec<_>>()
                    .into_iter()
                    .map(|h| h.join().unwrap())
                    .collect()
            });
            let mut menus: Vec<(usize, Vec<u8>)> = vec![];
            for (m, f, mut st, r) in parts {
                menus.extend(m);
                out.found.extend(f);
                out.runs += r;
                st.evaluations = 0;
                stats.merge(st);
            }
            menus.sort();
            // modal menu
            let mut count: HashMap<&Vec<u8>, usize> = HashMap::new();
            for (_, m) in &menus {
                *count.entry(m).or_insert(0) += 1;
            }
            out.menus = out.menus.max(count.len());
            let Some((modal, _)) = count.iter().max_by(|a, b| a.1.cmp(b.1).then(b.0.cmp(a.0))).map(|(m, c)| ((*m).clone(), *c)) else { continue };
            let anomalous: Vec<usize> = menus.iter().filter(|(_, m)| *m != modal).map(|(e, _)| *e).take(48).collect();
            out.anomalous_entries += anomalous.len();
            // level 2 (and 3 for the first four): every further choice, with the bytes each choice consumed
            for (ai, &e) in anomalous.iter().enumerate() {
                let v = entries[e];
                let mut script = base.clone();
                script[at] = (v >> 8) as u8;
                script[at + 1] = (v & 0xff) as u8;
                let depth_extra = if ai < 4 { 3 } else { 2 };
                let mut frontier: Vec<Vec<u8>> = vec![script];
                for d in 0..depth_extra {
                    let mut next: Vec<Vec<u8>> = vec![];
                    let results: Vec<(Vec<Vec<u8>>, Vec<engine::Found>, engine::Stats, u64)> = std::thread::scope(|s| {
                        let frontier = &frontier;
                        let spec = &spec;
                        (0..nt)
                            .map(|t| {
                                s.spawn(move || {
                                    let mut nx = vec![];
                                    let mut found = vec![];
                                    let mut st = engine::Stats::default();
                                    let mut runs = 0u64;
                                    let mut i = t;
                                    while i < frontier.len() {
                                        for b in 0..64u8 {
                                            let mut s2 = frontier[i].clone();
                                            s2.push(b);
                                            let (mut sc, recs, body, consumed) = engine::tree_probe_with(p, &s2, len + 1 + d, spec.trace);
                                            runs += 1;
                                            if body.len() == len + 1 + d {
                                                if consumed > s2.len() {
                                                    s2.resize(consumed, 0);
                                                }
                                                nx.push(s2);
                                            }
                                            for v in engine::evaluate_any(prop, &sc, &recs, &mut st) {
                                                if engine::known_match(known, &v).is_none() && found.len() < 4 {
                                                    sc.faults.push(Fault { kind: "table", at, detail: format!("program {:?} with table entry #{} (its menu of next opcodes differs from the other entries'), explored {} choices deep", ops, e, d + 1) });
                                                    found.push(engine::Found { index: e as u64, scenario: sc.clone(), violation: v });
                                                }
                                            }
                                        }
                                        i += nt;
                                    }
                                    (nx, found, st, runs)
                                })
                            })
                            .collect::<Vec<_>>()
                            .into_iter()
                            .map(|h| h.join().unwrap())
                            .collect()
                    });
                    for (nx, f, mut st, r) in results {
                        next.extend(nx);
                        out.found.extend(f);
                        out.deep_runs += r;
                        st.evaluations = 0;
                        stats.merge(st);
                    }
                    next.sort();
                    frontier = next;
                    if !out.found.is_empty() {
                        break;
                    }
                }
                if !out.found.is_empty() {
                    break;
                }
            }
        }
    }
    out.found.sort_by_key(|f| f.index);
    out
}
