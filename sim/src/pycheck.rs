//! Oracle self-check: R1/R2 against the live CPython `pickletools` on a batch of outputs.

use crate::desc::hex;
use crate::lexer;
use crate::machine;
use std::io::Write;
use std::process::{Command, Stdio};

pub struct PyReport {
    pub available: bool,
    pub compared: usize,
    /// disagreements on undamaged generator outputs (harness error)
    pub hard: Vec<String>,
    /// disagreements on deliberately damaged inputs (reported, not fatal)
    pub soft: Vec<String>,
}

pub fn python_enabled() -> bool {
    std::env::var("PFSIM_PYTHON").map(|v| v != "off").unwrap_or(true)
}

fn script_path() -> String {
    format!("{}/sim/py/oracle.py", crate::engine::verif_root())
}

pub fn run_python(inputs: &[Vec<u8>]) -> Option<Vec<String>> {
    if !python_enabled() {
        return None;
    }
    let mut child = Command::new("python3")
        .arg(script_path())
        .stdin(Stdio::piped())
        .stdout(Stdio::piped())
        .stderr(Stdio::null())
        .spawn()
        .ok()?;
    {
        let mut stdin = child.stdin.take()?;
        let mut buf = String::new();
        for i in inputs {
            if i.is_empty() {
                buf.push('-');
            } else {
                buf.push_str(&hex(i));
            }
            buf.push('\n');
        }
        // write from a thread to avoid pipe deadlock on large batches
        let h = std::thread::spawn(move || {
            let _ = stdin.write_all(buf.as_bytes());
        });
        let out = child.wait_with_output().ok()?;
        let _ = h.join();
        if !out.status.success() {
            return None;
        }
        let txt = String::from_utf8_lossy(&out.stdout).to_string();
        let lines: Vec<String> = txt.lines().map(|l| l.to_string()).collect();
        if lines.len() != inputs.len() {
            return None;
        }
        Some(lines)
    }
}

fn ours(data: &[u8]) -> (String, String) {
    let (ops, err) = lexer::lex(data);
    let g = if err.is_none() { "ok" } else { "err" };
    let names: Vec<&str> = ops.iter().map(|o| o.name()).collect();
    let d = if err.is_some() {
        "err".to_string()
    } else {
        let v = machine::run(&ops, false, false);
        if v.dis_accepts() {
            "ok".to_string()
        } else {
            "err".to_string()
        }
    };
    (format!("{} {} {}", g, names.len(), names.join(",")), d)
}

/// `samples`: (output, undamaged?)
pub fn cross_check(samples: &[(Vec<u8>, bool)]) -> PyReport {
    let mut rep = PyReport {
        available: false,
        compared: 0,
        hard: vec![],
        soft: vec![],
    };
    if samples.is_empty() {
        return rep;
    }
    let inputs: Vec<Vec<u8>> = samples.iter().map(|s| s.0.clone()).collect();
    let Some(lines) = run_python(&inputs) else { return rep };
    rep.available = true;
    for ((data, pristine), line) in samples.iter().zip(lines.iter()) {
        let mut parts = line.splitn(2, " | ");
        let pg = parts.next().unwrap_or("").trim().to_string();
        let pd = parts.next().unwrap_or("").trim().to_string();
        let (og, od) = ours(data);
        // genops: compare verdict and the decoded opcode sequence
        let pg_norm = {
            let mut it = pg.splitn(3, ' ');
            let verdict = it.next().unwrap_or("");
            let n = it.next().unwrap_or("0");
            let names = it.next().unwrap_or("");
            let verdict = if verdict.starts_with("err") { "err" } else { verdict };
            format!("{} {} {}", verdict, n, names)
        };
        let pd_norm = if pd.starts_with("err") { "err" } else { "ok" };
        rep.compared += 1;
        let mut msgs = vec![];
        if pg_norm.trim() != og.trim() {
            msgs.push(format!("genops differs: cpython [{}] model [{}]", &pg[..pg.len().min(120)], &og[..og.len().min(120)]));
        }
        if pd_norm != od {
            msgs.push(format!("dis differs: cpython [{}] model [{}]", pd, od));
        }
        for m in msgs {
            let entry = format!("{} input={}", m, hex(&data[..data.len().min(400)]));
            if *pristine {
                rep.hard.push(entry);
            } else {
                rep.soft.push(entry);
            }
        }
    }
    rep
}

/// deterministic damage for the self-check: truncation and byte flips
pub fn damaged_variants(data: &[u8], salt: u64) -> Vec<Vec<u8>> {
    let mut v = vec![];
    if data.len() > 2 {
        let cut = (crate::desc::mix64(salt) as usize) % data.len();
        v.push(data[..cut].to_vec());
        let mut f = data.to_vec();
        let pos = (crate::desc::mix64(salt ^ 1) as usize) % data.len();
        f[pos] ^= 1 << (crate::desc::mix64(salt ^ 2) % 8);
        v.push(f);
    }
    v
}
