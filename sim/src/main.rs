//! pfsim — deterministic simulation harness for pickle-fuzzer (see /verif/DESIGN.md)
#![allow(dead_code)]

mod cli;
mod clock;
mod comp;
mod desc;
mod edge;
mod engine;
mod exec;
mod hist;
mod leak;
mod lexer;
mod machine;
mod mix;
mod optable;
mod procs;
mod props;
mod pycheck;
mod reach;
mod synth;
mod threads;

use engine::{Tier, Found};

#[global_allocator]
static GLOBAL: leak::CountingAlloc = leak::CountingAlloc;
use serde_json::{json, Value};

fn usage() -> ! {
    eprintln!("usage: pfsim check <C01..C18> <quick|thorough> | pfsim replay <file> | pfsim selftest");
    std::process::exit(2);
}

fn main() {
    exec::install_quiet_panic_hook();
    let args: Vec<String> = std::env::args().collect();
    if args.len() < 2 {
        usage();
    }
    let code = match args[1].as_str() {
        "check" => {
            if args.len() < 4 {
                usage();
            }
            let tier = match args[3].as_str() {
                "quick" => Tier::Quick,
                "thorough" => Tier::Thorough,
                _ => usage(),
            };
            run_check(&args[2], tier)
        }
        "replay" => {
            if args.len() < 3 {
                usage();
            }
            run_replay(&args[2])
        }
        "selftest" => run_selftest(),
        "show-scenario" => {
            // show-scenario <prop> <tier> <index>: the scenario a check executes at that run index
            let tier = if args.get(3).map(|s| s.as_str()) == Some("thorough") { Tier::Thorough } else { Tier::Quick };
            let i: u64 = args.get(4).and_then(|s| s.parse().ok()).unwrap_or(0);
            match engine::spec_for(&args[2], tier) {
                Some(spec) => {
                    let runs = runs_override(match tier { Tier::Quick => spec.runs_quick, Tier::Thorough => spec.runs_thorough });
                    println!("{}", engine::scenario_of(&spec, engine::verif_seed(), tier, i, runs).to_json());
                    0
                }
                None => 2,
            }
        }
        "synth" => {
            // synth <depth> <max_states>: size of the model exploration (diagnostic)
            let d = args.get(2).and_then(|s| s.parse().ok()).unwrap_or(8);
            let ms = args.get(3).and_then(|s| s.parse().ok()).unwrap_or(2_000_000);
            let t = std::time::Instant::now();
            let vocab: &[&'static str] = if args.get(4).map(|s| s.as_str()) == Some("containers") { &synth::VOCAB_CONTAINERS } else { &synth::VOCAB_OBJECTS };
            let (progs, st) = synth::cycle_programs(vocab, d, ms);
            println!("depth {} states {} transitions {} cycle programs {} in {:?}", st.depth, st.states, st.transitions, progs.len(), t.elapsed());
            let mut by_len = std::collections::BTreeMap::new();
            for p in &progs {
                *by_len.entry(p.ops.len()).or_insert(0) += 1;
            }
            println!("by length {:?}", by_len);
            for p in progs.iter().take(5) {
                println!("  {}", p.ops.join(" "));
            }
            let want = ["GLOBAL", "EMPTY_TUPLE", "REDUCE", "EMPTY_DICT", "BUILD", "BINPUT", "EMPTY_DICT", "NONE", "BINGET", "SETITEM", "BUILD"];
            println!("contains the C14b shape: {}", progs.iter().any(|p| p.ops == want));
            println!("{}", synth::debug_run(&want));
            0
        }
        "selfhash" => {
            let n = args.get(2).and_then(|s| s.parse().ok()).unwrap_or(100);
            println!("{:016x}", selfhash(n));
            0
        }
        "build-front-ends" => match cli::build_front_ends() {
            Ok(()) => {
                if !clock::ensure_shim() {
                    eprintln!("note: clock shim could not be built (no C compiler?): C07 runs without clock-jump faults");
                }
                0
            }
            Err(e) => {
                eprintln!("HARNESS ERROR: {}", e);
                2
            }
        },
        "worker" => {
            // worker <prop> <tier> <seed> <k> <n> <runs> <skip,csv>
            let tier = if args[3] == "thorough" { Tier::Thorough } else { Tier::Quick };
            let p = |i: usize| args.get(i).and_then(|s| s.parse::<u64>().ok()).unwrap_or(0);
            let skip: Vec<u64> = args.get(8).map(|s| s.trim_start_matches('s').split(',').filter_map(|x| x.parse().ok()).collect()).unwrap_or_default();
            procs::worker_main(&args[2], tier, p(4), p(5), p(6), p(7), &skip, p(9))
        }
        "exec-scenario" => procs::exec_scenario_main(&args[2], &args[3]),
        "steer-tokens" => {
            // steer-tokens <protocol> <token>...: diagnostic for compact steering recipes
            let p: u8 = args.get(2).and_then(|s| s.parse().ok()).unwrap_or(2);
            let toks: Vec<String> = args[3..].to_vec();
            let t = std::time::Instant::now();
            match synth::steer_tokens(p, &toks) {
                Some(s) => println!("steered {} opcodes with {} script bytes in {:?}", synth::token_ops(&toks), s.len(), t.elapsed()),
                None => println!("not steerable ({:?})", t.elapsed()),
            }
            0
        }
        "probe-patterns" => {
            // probe-patterns <seed> <outfile>: the adaptive pattern probes, isolated from the supervisor
            procs::limit_address_space(procs::CHILD_ADDRESS_SPACE);
            let seed: u64 = args.get(2).and_then(|s| s.parse().ok()).unwrap_or(0);
            engine::force_deep_patterns(seed);
            engine::export_deep_patterns_to(seed, &args[3]);
            0
        }
        "digest-batch" => {
            let p = |i: usize| args.get(i).and_then(|s| s.parse::<u64>().ok()).unwrap_or(0);
            // optional 4th argument: the prelude this process executes before the batch
            threads::prelude(p(4));
            print!("{}", threads::digest_batch(p(2), p(3)));
            0
        }
        _ => usage(),
    };
    std::process::exit(code);
}

fn runs_override(default: u64) -> u64 {
    std::env::var("PFSIM_RUNS").ok().and_then(|s| s.parse().ok()).unwrap_or(default)
}

fn wall_cap(tier: Tier) -> f64 {
    std::env::var("PFSIM_WALL_CAP")
        .ok()
        .and_then(|s| s.parse().ok())
        .unwrap_or(match tier {
            Tier::Quick => 150.0,
            Tier::Thorough => 1500.0,
        })
}

/// returns process exit code
fn run_check(prop: &str, tier: Tier) -> i32 {
    let seed = engine::verif_seed();
    println!("pfsim check property={} tier={} VERIF_SEED={} threads={}", prop, tier.name(), seed, engine::n_threads());
    // C09 supervises child processes itself; C07 re-executes itself under the clock shim first and
    // starts the watchdog in the process that does the work
    if prop != "C09" && prop != "C07" {
        engine::start_stall_watchdog();
    }
    match prop {
        "C01" | "C02" | "C03" | "C04" | "C05" | "C06" | "C08" | "C14" | "C10" | "C11" | "C15" | "C16" | "C17" => check_solo_family(prop, tier, seed),
        "C18" => check_c18(tier, seed),
        "C12" => check_c12(tier, seed),
        "C09" => check_c09(tier, seed),
        "C07" => check_c07(tier, seed),
        "C13" => check_c13(tier, seed),
        _ => {
            eprintln!("property {} has no check yet", prop);
            2
        }
    }
}

fn minimise_plan(plan: &threads::Plan, class: &str) -> (threads::Plan, usize) {
    let mut best = plan.clone();
    let mut tries = 0;
    let t0 = std::time::Instant::now();
    let mut progressed = true;
    while progressed && tries < 200 && t0.elapsed().as_secs() < 90 {
        progressed = false;
        let n = best.tasks.len();
        for drop_t in (0..n).rev() {
            if best.tasks.len() <= 1 {
                break;
            }
            // remove task drop_t, renumber
            let mut c = best.clone();
            c.tasks.remove(drop_t);
            for p in c.placement.iter_mut() {
                p.retain(|x| *x != drop_t);
                for x in p.iter_mut() {
                    if *x > drop_t {
                        *x -= 1;
                    }
                }
            }
            c.placement.retain(|p| !p.is_empty());
            c.twins.retain(|(a, b)| *a != drop_t && *b != drop_t);
            for (a, b) in c.twins.iter_mut() {
                if *a > drop_t {
                    *a -= 1;
                }
                if *b > drop_t {
                    *b -= 1;
                }
            }
            c.schedule = None;
            if c.placement.is_empty() {
                continue;
            }
            tries += 1;
            // a candidate is kept only if it shows the violation three times in a row: a defect
            // that makes outputs depend on per-instance hasher state or addresses is itself
            // nondeterministic, and a plan cut down to a lucky single task would not replay
            let head = class.split('(').next().unwrap_or(class);
            let mut all = true;
            for _ in 0..3 {
                let mut st = engine::Stats::default();
                if !threads::judge(&c, &mut st).violation.is_some_and(|v| v.class.starts_with(head)) {
                    all = false;
                    break;
                }
            }
            if all {
                best = c;
                progressed = true;
                break;
            }
        }
    }
    (best, tries)
}

type C07Found = (u64, threads::Plan, props::Violation);

fn c07_sweep(seed: u64, sims: u64, cap: f64, _t0: std::time::Instant) -> (engine::Stats, Vec<C07Found>, std::collections::HashSet<u64>) {
    use std::sync::atomic::{AtomicU64, Ordering};
    // injected clock jumps must not eat the harness's own budget: it is kept on the real clock
    let start = clock::real_seconds();
    let nt = engine::n_threads() as u64;
    let first_bad = AtomicU64::new(u64::MAX);
    let results: Vec<(engine::Stats, Vec<C07Found>, std::collections::HashSet<u64>)> = std::thread::scope(|s| {
        let mut hs = vec![];
        for t in 0..nt {
            let first_bad = &first_bad;
            hs.push(s.spawn(move || {
                let mut stats = engine::Stats::default();
                let mut found = vec![];
                let mut schedules = std::collections::HashSet::new();
                let mut i = t;
                while i < sims {
                    if i > first_bad.load(Ordering::Relaxed) || clock::real_seconds() - start > cap {
                        break;
                    }
                    let plan = threads::draw_plan(seed, i);
                    engine::tick();
                    let v = threads::judge(&plan, &mut stats);
                    stats.evaluations += 1;
                    schedules.insert(desc::digest(&v.sim.schedule));
                    if v.nontrivial {
                        let mut d = desc::digest(&v.sim.schedule);
                        for o in v.sim.outputs.iter().flatten().flatten() {
                            d = desc::mix64(d ^ desc::digest(o));
                        }
                        stats.nontrivial.insert(d);
                    }
                    if stats.samples.len() < 2 && i % 16 == 0 {
                        let mut p = plan.clone();
                        p.schedule = Some(v.sim.schedule.clone());
                        let mut j = p.to_json();
                        // keep the sample readable
                        if let Some(h) = j.get_mut("schedule_hex") {
                            if let Some(sx) = h.as_str() {
                                let short: String = sx.chars().take(160).collect();
                                *h = json!(format!("{}... ({} decisions)", short, v.sim.schedule.len()));
                            }
                        }
                        stats.samples.push(json!({"simulation_index": i, "plan": j, "switches": v.sim.switches, "steps": v.sim.steps}));
                    }
                    if let Some(vi) = v.violation {
                        let mut p = plan.clone();
                        p.schedule = Some(v.sim.schedule.clone());
                        found.push((i, p, vi));
                        first_bad.fetch_min(i, Ordering::Relaxed);
                    }
                    i += nt;
                }
                (stats, found, schedules)
            }));
        }
        hs.into_iter().map(|h| h.join().unwrap()).collect()
    });
    let mut stats = engine::Stats::default();
    let mut found = vec![];
    let mut schedules = std::collections::HashSet::new();
    for (s, f, sc) in results {
        stats.merge(s);
        found.extend(f);
        schedules.extend(sc);
    }
    found.sort_by_key(|f| f.0);
    (stats, found, schedules)
}

/// Re-execute a freshly written replay file in a fresh process. If it does not reproduce there, the
/// violation depends on what this process executed earlier (thread-local or process-wide state
/// outside every descriptor): fall back to a replay that re-runs the sweep prefix 0..=upto under
/// the same seed and worker count, which is deterministic per worker thread.
fn confirm_or_prefix(prop: &str, path: String, v: &props::Violation, tier: Tier, seed: u64, runs: u64, upto: u64) -> String {
    let exe = std::env::current_exe().unwrap();
    let fresh = |p: &str| -> (Option<i32>, String) {
        match std::process::Command::new(&exe).args(["replay", p]).stderr(std::process::Stdio::null()).output() {
            Ok(o) => (o.status.code(), String::from_utf8_lossy(&o.stdout).to_string()),
            Err(_) => (None, String::new()),
        }
    };
    if fresh(&path).0 == Some(1) {
        return path;
    }
    println!("note: the single-scenario replay does not reproduce in a fresh process: the violation depends on state left behind by earlier runs in the same process (thread-local or process-wide state outside every descriptor)");
    // deterministic variant first: the sweep prefix on ONE worker thread
    // runs with a higher index may have been executing concurrently when the violation happened
    let upto = upto + 4 * engine::n_threads() as u64;
    for threads in [1usize, engine::n_threads()] {
        let mut vv = v.clone();
        let body = json!({"tier": tier.name(), "verif_seed": seed.to_string(), "runs": runs, "upto": upto, "threads": threads, "match": if threads == 1 { "exact-class" } else { "class-head" },
            "note": "re-executes run indices 0..=upto of the check in a fresh process"});
        let p2 = engine::write_replay(prop, "sweep-prefix", body.clone(), &vv, false, json!({"single_scenario_replay_that_did_not_reproduce_alone": path}));
        let (code, out) = fresh(&p2);
        if code == Some(1) {
            return p2;
        }
        // the prefix may violate the property with another class (e.g. another dimension): record the
        // class the deterministic run produces so that the file replays exactly
        if let Some(c) = out.lines().find_map(|l| l.strip_prefix("replayed: class=")) {
            let _ = std::fs::remove_file(&p2);
            vv.class = c.trim().to_string();
            let p3 = engine::write_replay(prop, "sweep-prefix", body, &vv, false, json!({"single_scenario_replay_that_did_not_reproduce_alone": path, "class_seen_in_the_sweep": v.class}));
            if fresh(&p3).0 == Some(1) {
                return p3;
            }
        }
    }
    println!("note: no replay variant reproduced in a fresh process; reporting the single-scenario replay");
    path
}

fn check_c07(tier: Tier, seed: u64) -> i32 {
    // the clock seam: run under the LD_PRELOAD shim so that clock-jump faults are effective
    if let Some(code) = clock::reexec_under_shim() {
        return code;
    }
    engine::start_stall_watchdog();
    let t0 = std::time::Instant::now();
    let wall_start = clock::real_seconds();
    let known = engine::load_known();
    let sims = runs_override(match tier { Tier::Quick => 2_500, Tier::Thorough => 250_000 });
    let cap = wall_cap(tier);
    let (mut stats, found, schedules) = c07_sweep(seed, sims, cap, t0);
    // proc dimension: the same batch in fresh processes (new ASLR, new std hash keys)
    let nproc = 8;
    let batch = match tier { Tier::Quick => 4_000u64, Tier::Thorough => 40_000 };
    let exe = std::env::current_exe().unwrap();
    // every child also gets a different process environment (locale, time zone, HOME, working
    // directory, terminal size, RUST_* and RAYON_* variables): none of it may reach the output
    let tmpdir = format!("{}/target/tmp", engine::verif_root());
    let _ = std::fs::create_dir_all(&tmpdir);
    let children: Vec<_> = (0..nproc)
        .map(|k| {
            let mut c = std::process::Command::new(&exe);
            // every child also has a different history before the batch (nothing a process did
            // earlier - which configuration it served first, how large, in which mode - may reach
            // the bytes of a later generation)
            c.args(["digest-batch", &seed.to_string(), &batch.to_string(), &(k % 5).to_string()]).stdout(std::process::Stdio::piped()).stderr(std::process::Stdio::null());
            match k % 4 {
                1 => {
                    c.env("LANG", "C").env("LC_ALL", "C").env("TZ", "Pacific/Kiritimati").env("COLUMNS", "20").env("RUST_BACKTRACE", "full").current_dir("/");
                }
                2 => {
                    c.env("LANG", "tr_TR.UTF-8").env("LC_ALL", "tr_TR.UTF-8").env("TZ", "UTC").env("HOME", "/nonexistent").env("RAYON_NUM_THREADS", "1").env("RUST_LOG", "trace").current_dir(&tmpdir);
                }
                3 => {
                    c.env_remove("HOME").env_remove("LANG").env_remove("PATH").env("TMPDIR", "/nonexistent").env("PICKLE_FUZZER_SEED", "99").env("SOURCE_DATE_EPOCH", "1");
                }
                _ => {}
            }
            c.spawn()
        })
        .collect();
    stats.add("fault.env.children_with_perturbed_environment", (nproc as u64) * 3 / 4);
    let mut outs: Vec<String> = vec![];
    {
        // the parent has nothing to do while the children work: keep the stall watchdog quiet for a
        // bounded time (a child that never finishes is then still reported by the watchdog)
        let done = std::sync::atomic::AtomicBool::new(false);
        std::thread::scope(|s| {
            s.spawn(|| {
                let t = std::time::Instant::now();
                while !done.load(std::sync::atomic::Ordering::Relaxed) && t.elapsed().as_secs() < 900 {
                    engine::tick();
                    std::thread::sleep(std::time::Duration::from_millis(500));
                }
            });
            for c in children {
                if let Ok(c) = c {
                    if let Ok(o) = c.wait_with_output() {
                        outs.push(String::from_utf8_lossy(&o.stdout).to_string());
                    }
                }
            }
            done.store(true, std::sync::atomic::Ordering::Relaxed);
        });
    }
    stats.add("fault.proc.fresh_processes_compared", outs.len() as u64);
    stats.add("c07.proc_batch_scenarios", batch);
    let mut proc_violation: Option<(Value, props::Violation)> = None;
    if outs.len() >= 2 {
        for (pi, o) in outs.iter().enumerate().skip(1) {
            if *o != outs[0] {
                let la: Vec<&str> = outs[0].lines().collect();
                let lb: Vec<&str> = o.lines().collect();
                let idx = la.iter().zip(lb.iter()).position(|(a, b)| a != b).unwrap_or(la.len().min(lb.len()));
                proc_violation = Some((
                    json!({"seed": seed.to_string(), "batch": batch, "scenario_index": idx}),
                    props::Violation::new("C07", "twin-differs(process)", format!("process #{} disagrees with process #0 on scenario {} of the batch", pi, idx)),
                ));
                break;
            }
        }
    } else {
        eprintln!("HARNESS ERROR: could not run child processes for the proc dimension");
        return 2;
    }
    let mut unknown: Vec<&(u64, threads::Plan, props::Violation)> = vec![];
    for f in &found {
        if engine::known_match(&known, &f.2).is_some() {
            stats.bump(&format!("known.{}", f.2.class));
        } else {
            unknown.push(f);
        }
    }
    for k in known.iter().filter(|k| k.status == "known" && k.property == "C07") {
        println!("KNOWN-FINDING: property=C07 class={} {}", k.class, k.what);
    }
    let mut code = 0;
    let mut nviol = 0;
    if let Some((i, plan, v)) = unknown.first() {
        let mut unsched = plan.clone();
        unsched.schedule = None;
        let (m, tries) = minimise_plan(&unsched, &v.class);
        // record the schedule of the minimised plan
        let mut st = engine::Stats::default();
        let jm = threads::judge(&m, &mut st);
        let (body, minimised) = if jm.violation.as_ref().is_some_and(|x| x.class == v.class) {
            let mut mm = m.clone();
            mm.schedule = Some(jm.sim.schedule.clone());
            (mm.to_json(), true)
        } else {
            (plan.to_json(), false)
        };
        let path = engine::write_replay("C07", "plan", body, v, minimised, json!({"simulation_index": i, "original": plan.to_json(), "minimiser_executions": tries}));
        let path = confirm_or_prefix("C07", path, v, tier, seed, sims, *i);
        println!("violation class={} simulation={} detail={}", v.class, i, v.detail);
        println!("VIOLATION property=C07 replay={}", path);
        code = 1;
        nviol = unknown.len();
    } else if let Some((body, v)) = &proc_violation {
        if engine::known_match(&known, v).is_none() {
            let path = engine::write_replay("C07", "procs", body.clone(), v, false, json!({}));
            println!("violation class={} detail={}", v.class, v.detail);
            println!("VIOLATION property=C07 replay={}", path);
            code = 1;
            nviol = 1;
        }
    }
    let wall = clock::real_seconds() - wall_start;
    stats.add("c07.distinct_schedules(by hash of the schedule string)", schedules.len() as u64);
    engine::write_evidence(engine::EvidenceIn {
        prop: "C07", tier, seed, level: "exploration",
        rule: "one evaluation = one multi-task simulation: 1..10 generator tasks (most with a twin under another simulator-chosen memo hash key) placed on 1..16 real OS threads, interleaved at emission granularity by a seeded baton scheduler (policies bursty/uniform/round-robin/PCT-style/sequential); every task's bytes must equal the same task run alone on a fresh thread with the canonical key; plus the same scenario batch digested in 8 fresh processes; non-trivial = some task emitted a GET-family opcode with >= 2 memo keys (the only place map order can reach the output) or twins overlapped in time; distinct = distinct (schedule string, outputs) digests",
        stats: &stats, wall_s: wall, violations: nviol, known: 0,
        extra: json!({"simulations_requested": sims, "distinct_schedules": schedules.len(), "fresh_processes": outs.len(),
            "clock_seam": {"controlled_by_simulator": clock::controlled(), "how": "LD_PRELOAD shim over clock_gettime/gettimeofday (sim/c/clockshim.c); jumps of 1 s .. 1 h injected at scheduler steps", "clock_reads_served_by_the_shim": clock::reads()},
            "not_controlled": ["rayon scheduling inside the CLI (observed by C13 at several worker counts)", "ASLR / allocation addresses and the hash seeds of pointer-keyed Dict/Set cells (varied per process/thread, not chosen)"]}),
        assumptions: vec!["exactly one task thread runs at any time (baton), so data races are not observable here; the library has no shared mutable state except a OnceLock".into(),
            "only the memo map is keyed by the simulator; pointer-keyed sets are varied, not chosen".into()],
        exhaustive: false,
    });
    println!("done property=C07 simulations={} task_executions={} distinct_schedules={} distinct_nontrivial={} wall={:.1}s violations={}",
        stats.evaluations, stats.counters.get("c07.task_executions").copied().unwrap_or(0), schedules.len(), stats.nontrivial.len(), wall, nviol);
    code
}

fn check_c13(tier: Tier, seed: u64) -> i32 {
    use std::sync::atomic::{AtomicU64, Ordering};
    let t0 = std::time::Instant::now();
    let known = engine::load_known();
    if let Err(e) = cli::build_front_ends() {
        eprintln!("HARNESS ERROR: cannot build the CLI binary / Python extension from the working tree: {}", e);
        return 2;
    }
    let build_s = t0.elapsed().as_secs_f64();
    let n_cases = runs_override(match tier { Tier::Quick => 500, Tier::Thorough => 20_000 });
    let n_py = match tier { Tier::Quick => 300u64, Tier::Thorough => 10_000 }.min(n_cases.max(50) * 2);
    let nt = engine::n_threads() as u64;
    let first_bad = AtomicU64::new(u64::MAX);
    let cap = wall_cap(tier);
    let results: Vec<(engine::Stats, Vec<(u64, Value, props::Violation)>)> = std::thread::scope(|s| {
        let mut hs = vec![];
        for t in 0..nt {
            let first_bad = &first_bad;
            hs.push(s.spawn(move || {
                let mut stats = engine::Stats::default();
                let mut found = vec![];
                let mut i = t;
                while i < n_cases {
                    if i > first_bad.load(Ordering::Relaxed) || t0.elapsed().as_secs_f64() > cap {
                        break;
                    }
                    engine::tick();
                    let case = cli::draw_case(seed, i);
                    let vs = cli::run_case(&case, &format!("{}", i), &mut stats);
                    stats.evaluations += 1;
                    let j = case.to_json();
                    let nontrivial = j["opts"].as_object().is_some_and(|o| o.iter().any(|(k, v)| k != "list_style" && !(v.is_null() || v == &json!(false) || v == &json!([])))) || j["fs_faults"].as_array().is_some_and(|a| !a.is_empty());
                    if nontrivial {
                        stats.nontrivial.insert(desc::digest(j.to_string().as_bytes()));
                    }
                    if stats.samples.len() < 2 && i % 16 == 1 {
                        stats.samples.push(json!({"case_index": i, "case": j.clone()}));
                    }
                    for v in vs {
                        found.push((i, j.clone(), v));
                        first_bad.fetch_min(i, Ordering::Relaxed);
                        break;
                    }
                    i += nt;
                }
                (stats, found)
            }));
        }
        hs.into_iter().map(|h| h.join().unwrap()).collect()
    });
    let mut stats = engine::Stats::default();
    let mut found: Vec<(u64, Value, props::Violation, &str)> = vec![];
    for (s, f) in results {
        stats.merge(s);
        for (i, j, v) in f {
            found.push((i, j, v, "cli"));
        }
    }
    // rayon worker counts: the same batch directory at several worker counts, twice each
    {
        let opts = cli::draw_opts(&mut mix::rng_from(desc::derive_seed(seed, "C13.rayon", 0)));
        let mut opts = opts;
        if opts.seed.is_none() {
            opts.seed = Some(seed);
        }
        for (k, n) in [1usize, 2, 3, 8, 16, 3, 16].iter().enumerate() {
            let case = cli::Case::Batch { opts: opts.clone(), samples: 24, faults: vec![], stale: false, dir_preexists: false, dir_is_file: false, rayon_threads: *n, via_action: false, style: 0, fsize: None };
            let vs = cli::run_case(&case, &format!("rayon{}", k), &mut stats);
            stats.evaluations += 1;
            for v in vs {
                found.push((n_cases + k as u64, case.to_json(), v, "cli"));
            }
        }
    }
    // Python front end
    let seqs: Vec<cli::PySeq> = (0..n_py).map(|i| cli::draw_pyseq(seed, i)).collect();
    let mut py_ok = true;
    match cli::run_python(&seqs) {
        Ok(res) => {
            for (i, (sq, got)) in seqs.iter().zip(res.iter()).enumerate() {
                stats.evaluations += 1;
                stats.bump("fault.front_end.python_sequences");
                if sq.calls.len() >= 2 {
                    stats.nontrivial.insert(desc::digest(sq.to_json().to_string().as_bytes()));
                }
                if i == 3 {
                    stats.samples.push(json!({"python_sequence": sq.to_json()}));
                }
                if let Some(v) = cli::judge_pyseq(sq, got) {
                    found.push((1_000_000 + i as u64, sq.to_json(), v, "pyseq"));
                }
            }
        }
        Err(e) => {
            eprintln!("HARNESS ERROR: python front end could not be exercised: {}", e);
            py_ok = false;
        }
    }
    found.sort_by_key(|f| f.0);
    let mut unknown = vec![];
    for f in &found {
        if engine::known_match(&known, &f.2).is_some() {
            stats.bump(&format!("known.{}", f.2.class));
        } else {
            unknown.push(f);
        }
    }
    for k in known.iter().filter(|k| k.status == "known" && k.property == "C13") {
        let seen = stats.counters.get(&format!("known.{}", k.class)).copied().unwrap_or(0);
        println!("KNOWN-FINDING: property=C13 class={} {} (seen {} times in this run)", k.class, k.what, seen);
    }
    let mut code = 0;
    if let Some((i, body, v, kind)) = unknown.first() {
        let path = engine::write_replay("C13", kind, body.clone(), v, false, json!({"case_index": i}));
        println!("violation class={} case={} detail={}", v.class, i, v.detail);
        println!("VIOLATION property=C13 replay={}", path);
        code = 1;
    }
    let wall = t0.elapsed().as_secs_f64();
    engine::write_evidence(engine::EvidenceIn {
        prop: "C13", tier, seed, level: "exploration",
        rule: "one evaluation = one execution of a real front end compared with the hooked library: the hook-free pickle-fuzzer binary in single-file or batch mode (options sampled by the simulator; batch dirs with path-keyed write faults ENOSPC/EISDIR/ENOENT/ENOTDIR, stale files, RAYON_NUM_THREADS in {1,2,3,8,16}), scripts/action-run.sh with INPUT_* variables, or a Python call sequence on the freshly built _native extension; non-trivial = at least one non-default option or planted fault (CLI) / at least two calls (Python); distinct case digests",
        stats: &stats, wall_s: wall, violations: unknown.len(), known: 0,
        extra: json!({"cli_cases": n_cases, "python_sequences": n_py, "front_end_build_s": build_s,
            "real_components": ["pickle-fuzzer binary built hook-free from the working tree", "scripts/action-run.sh", "pickle_fuzzer._native built with --features python-bindings, loaded by python3", "python/pickle_fuzzer/fuzzer.py"],
            "stubbed": ["atheris (instrument_func/Setup/Fuzz no-ops)"],
            "not_controlled": ["rayon schedule (faults are keyed by path; worker counts are sampled)"],
            "excluded": ["--unsafe-mutations / --mutation-rate without --mutators (no documented corresponding configuration)", "runs without --seed are only checked for exit status, file set and header"]}),
        assumptions: vec!["the hooked library is the reference; that the hooks do not perturb it is what the byte comparison with the hook-free binary shows".into()],
        exhaustive: false,
    });
    println!("done property=C13 evaluations={} distinct_nontrivial={} wall={:.1}s (build {:.1}s) violations={}", stats.evaluations, stats.nontrivial.len(), wall, build_s, unknown.len());
    if !py_ok {
        return 2;
    }
    code
}

fn check_c09(tier: Tier, seed: u64) -> i32 {
    let spec = engine::spec_for("C09", tier).unwrap();
    let known = engine::load_known();
    let runs = runs_override(match tier { Tier::Quick => spec.runs_quick, Tier::Thorough => spec.runs_thorough });
    let budget = std::time::Duration::from_secs(match tier { Tier::Quick => 60, Tier::Thorough => 180 });
    let out = procs::sweep_procs("C09", tier, seed, runs, wall_cap(tier), budget);
    let mut stats = out.stats;
    let mut unknown: Vec<Found> = vec![];
    for f in out.found {
        if engine::known_match(&known, &f.violation).is_some() {
            stats.bump(&format!("known.{}", f.violation.class));
        } else {
            unknown.push(f);
        }
    }
    let minimise = |f: &Found| -> (Value, bool, Value) {
        // deaths and hangs can only be re-observed from outside the process: minimise those with the
        // isolated executor (few steps), everything else in-process
        let class = f.violation.class.clone();
        if class.starts_with("process-death") || class == "hang" {
            // re-observable only from outside the process: a few isolated executions shrink the
            // opcode range while the worker still dies the same way
            let mut best = f.scenario.clone();
            let mut tries = 0;
            if class.starts_with("process-death") {
                for _ in 0..6 {
                    let mut c = best.clone();
                    c.config.min_opcodes = c.config.min_opcodes * 3 / 4;
                    c.config.max_opcodes = c.config.max_opcodes * 3 / 4;
                    for h in c.history.iter_mut() {
                        if let desc::HOp::Gen(desc::Entropy::Bytes(b)) = h {
                            let keep = (c.config.max_opcodes.max(c.config.min_opcodes) + 64).min(b.len());
                            b.truncate(keep);
                        }
                    }
                    tries += 1;
                    if procs::exec_isolated("C09", &c, std::time::Duration::from_secs(120)).iter().any(|v| v.class == class) {
                        best = c;
                    } else {
                        break;
                    }
                }
            }
            best.faults.clear();
            return (best.to_json(), tries > 1, json!({"run_index": f.index, "isolated_minimiser_executions": tries, "watchdog_budget_s": budget.as_secs()}));
        }
        let (m, tries) = engine::minimise("C09", &f.scenario, &class, exec::Trace::Light, false, 2000, 90.0);
        let still = engine::reproduces("C09", &m, &class, exec::Trace::Light, false);
        (if still { m.to_json() } else { f.scenario.to_json() }, still, json!({"original": f.scenario.to_json(), "run_index": f.index, "minimiser_executions": tries}))
    };
    let (code, nviol) = report_and_exit_code("C09", &unknown, &stats, &known, &minimise, "scenario", None);
    stats.add("worker_process_restarts", out.worker_restarts);
    engine::write_evidence(engine::EvidenceIn {
        prop: "C09", tier, seed, level: "exploration", rule: spec.rule, stats: &stats, wall_s: out.wall_s, violations: nviol, known: 0,
        extra: json!({"runs_requested": runs, "enumerated_short_script_runs": engine::enum_count(&spec, tier), "extremal_state_runs": engine::deep_count(&spec, tier), "long_lived_generator_runs": engine::soak_count(&spec, tier), "worker_processes": engine::n_threads(), "worker_stack_bytes": 2 << 20,
            "watchdog_budget_s": budget.as_secs(), "wall_cap_hit": out.capped,
            "isolation": "each shard runs in its own child process; a death is attributed to the run in flight (BEGIN/END protocol on the pipe); a watchdog kill is confirmed by a solo re-execution in a fresh process before it is called a hang"}),
        assumptions: vec!["panics are caught with catch_unwind in a build with debug-assertions and overflow-checks; aborts/stack overflows are seen as worker deaths".into(),
            "generate() without a seed (OS entropy) is outside the replayable space and not used for verdicts".into()],
        exhaustive: false,
    });
    println!("done property=C09 runs={} calls={} distinct_nontrivial={} wall={:.1}s violations={} restarts={}", stats.evaluations, stats.calls, stats.nontrivial.len(), out.wall_s, nviol, out.worker_restarts);
    if code == 0 && stats.evaluations < runs / 10 {
        eprintln!("HARNESS ERROR: only {} of {} requested runs were executed before the wall-clock cap; no verdict", stats.evaluations, runs);
        return 2;
    }
    code
}

fn check_c12(tier: Tier, seed: u64) -> i32 {
    let t0 = std::time::Instant::now();
    let known = engine::load_known();
    let out = reach::sweep(tier, seed);
    let mut stats = out.stats;
    // distinct non-trivial = distinct (protocol, flags, opcode | frame variant) pairs witnessed
    for i in 0..out.pairs_seen {
        stats.nontrivial.insert(i as u64);
    }
    let mut unknown = vec![];
    for (body, v) in &out.violations {
        if engine::known_match(&known, v).is_some() {
            stats.bump(&format!("known.{}", v.class));
        } else {
            unknown.push((body, v));
        }
    }
    for k in known.iter().filter(|k| k.status == "known" && k.property == "C12") {
        println!("KNOWN-FINDING: property=C12 class={} {}", k.class, k.what);
    }
    let mut code = 0;
    if let Some((body, v)) = unknown.first() {
        let path = engine::write_replay("C12", "reach", (*body).clone(), v, true, json!({}));
        println!("violation class={} detail={}", v.class, v.detail);
        println!("VIOLATION property=C12 replay={}", path);
        code = 1;
    }
    let wall = t0.elapsed().as_secs_f64();
    engine::write_evidence(engine::EvidenceIn {
        prop: "C12", tier, seed, level: "exploration",
        rule: "sometimes-assertions: rand mode, default settings, seeds 0..S-1 per protocol (second batch with EXT/buffer flags on); early exit once every required opcode was seen in >= 3 pickles and, for P>=4, framed and unframed both seen; evaluations = seeds executed; distinct non-trivial = distinct (protocol, batch, opcode or frame-variant) pairs witnessed",
        stats: &stats, wall_s: wall, violations: unknown.len(), known: 0,
        extra: json!({"batches": out.detail, "note": "no fault or schedule is involved in this property; it is decided as reach probes of the simulator (DESIGN §5 C12)"}),
        assumptions: vec!["required vocabulary = pickletools opcodes with proto <= P (table generated from CPython), EXT*/buffer only in the flags-on batch".into()],
        exhaustive: false,
    });
    println!("done property=C12 seeds={} pairs_witnessed={} wall={:.1}s violations={}", stats.evaluations, out.pairs_seen, wall, unknown.len());
    code
}

fn check_c18(tier: Tier, seed: u64) -> i32 {
    let t0 = std::time::Instant::now();
    let known = engine::load_known();
    let (exh, sampled) = match tier {
        Tier::Quick => (2, runs_override(60_000)),
        Tier::Thorough => (2, runs_override(3_000_000)),
    };
    let mut out = comp::sweep_c18(seed, exh, sampled);
    let draws_wide: u64 = match tier { Tier::Quick => 4_300_000_000, Tier::Thorough => 60_000_000_000 };
    let mut hunt = comp::prng_boundary_hunt(seed, std::env::var("PFSIM_HUNT").ok().and_then(|s| s.parse().ok()).unwrap_or(draws_wide), &mut out.stats);
    if hunt.is_empty() {
        let words: u64 = std::env::var("PFSIM_WORDS").ok().and_then(|s| s.parse().ok()).unwrap_or(match tier { Tier::Quick => 1 << 35, Tier::Thorough => 1 << 38 });
        hunt = comp::extreme_word_hunt(seed, words, &mut out.stats);
    }
    out.found.extend(hunt);
    finish_comp("C18", tier, seed, out, &known, t0,
        "comp scenario: every EntropySource method x argument grid {0,1,2,3,255,256,257,65535,65536,2^32,MAX-1,MAX} x ALL fuzzer scripts of length 0..2 (single draws), plus sampled scripts of length 3..16 at every cut with sequences of 1..6 draws, plus sampled PRNG seeds, plus a PRNG-side boundary hunt (gen_range on real ChaCha8 sources: enough draws per span — 4.3e9 (quick) or 6e10 (thorough) per span around 2^32 — that an inclusive upper bound would be produced several times; seeded spans in every magnitude class), plus an extreme-word hunt (2^35 quick / 2^38 thorough ChaCha8 words scanned for all-ones / zero / sign-boundary values, every bounded method x 27 spans executed on a generator positioned at each such word); non-trivial = the script is shorter than the draws need (short read / exhaustion fired); distinct (case, results)",
        true)
}

fn finish_comp(prop: &'static str, tier: Tier, seed: u64, out: comp::CompOutcome, known: &[engine::KnownFinding], t0: std::time::Instant, rule: &str, exhaustive_part: bool) -> i32 {
    let mut stats = out.stats;
    let mut unknown: Vec<&comp::Found2> = vec![];
    for f in &out.found {
        if engine::known_match(known, &f.violation).is_some() {
            stats.bump(&format!("known.{}", f.violation.class));
        } else {
            unknown.push(f);
        }
    }
    for k in known.iter().filter(|k| k.status == "known" && k.property == prop) {
        let seen = stats.counters.get(&format!("known.{}", k.class)).copied().unwrap_or(0);
        println!("KNOWN-FINDING: property={} class={} {} (seen {} times in this run)", prop, k.class, k.what, seen);
    }
    let mut code = 0;
    if let Some(f) = unknown.first() {
        let path = engine::write_replay(prop, "comp", f.case.clone(), &f.violation, true, json!({"case_index": f.index}));
        println!("violation class={} case_index={} detail={}", f.violation.class, f.index, f.violation.detail);
        println!("VIOLATION property={} replay={}", prop, path);
        code = 1;
    }
    let wall = t0.elapsed().as_secs_f64();
    engine::write_evidence(engine::EvidenceIn {
        prop, tier, seed, level: "fault_enumeration", rule, stats: &stats, wall_s: wall, violations: unknown.len(), known: 0,
        extra: json!({"scripts_enumerated_exhaustively_up_to_length": out.exhaustive_upto, "exhaustive_part": exhaustive_part}),
        assumptions: vec!["the entropy seam is exercised through the two real adapters only (no stub source)".into(), "usize::MAX-sized gen_bytes is excluded: an allocation failure aborts and says nothing about the adapter".into()],
        exhaustive: false,
    });
    println!("done property={} cases={} distinct_nontrivial={} wall={:.1}s violations={}", prop, stats.evaluations, stats.nontrivial.len(), wall, unknown.len());
    code
}

pub fn report_and_exit_code(
    prop: &str,
    found: &[Found],
    stats: &engine::Stats,
    known: &[engine::KnownFinding],
    minimise: &dyn Fn(&Found) -> (Value, bool, Value),
    kind: &str,
    prefix: Option<(Tier, u64, u64)>,
) -> (i32, usize) {
    // known findings listed for this property
    for k in known.iter().filter(|k| k.status == "known" && k.property == prop) {
        let seen = stats.counters.get(&format!("known.{}", k.class)).copied().unwrap_or(0);
        println!("KNOWN-FINDING: property={} class={} {} (seen {} times in this run)", prop, k.class, k.what, seen);
    }
    if let Some(f) = found.first() {
        let (body, minimised, extra) = minimise(f);
        let mut path = engine::write_replay(prop, kind, body, &f.violation, minimised, extra);
        if let Some((tier, seed, runs)) = prefix {
            path = confirm_or_prefix(prop, path, &f.violation, tier, seed, runs, f.index);
        }
        println!("violation class={} run_index={} detail={}", f.violation.class, f.index, f.violation.detail);
        println!("VIOLATION property={} replay={}", prop, path);
        (1, found.len())
    } else {
        (0, 0)
    }
}

fn check_solo_family(prop: &str, tier: Tier, seed: u64) -> i32 {
    let spec = engine::spec_for(prop, tier).unwrap();
    let known = engine::load_known();
    let runs = runs_override(match tier {
        Tier::Quick => spec.runs_quick,
        Tier::Thorough => spec.runs_thorough,
    });
    let out = engine::sweep_solo(&spec, tier, seed, runs, wall_cap(tier), &known);
    if out.found.is_empty() && out.capped && out.stats.evaluations < runs / 10 {
        eprintln!("HARNESS ERROR: only {} of {} requested runs were executed before the wall-clock cap; no verdict", out.stats.evaluations, runs);
        return 2;
    }
    let mut stats = out.stats;
    let found = out.found;
    // C15 / C16: component-level enumeration of fault points on the entropy reader
    let mut comp_found: Vec<comp::Found2> = vec![];
    if prop == "C15" || prop == "C16" {
        let rounds = runs_override(match tier { Tier::Quick => 6, Tier::Thorough => 200 }).min(match tier { Tier::Quick => 6, Tier::Thorough => 200 });
        let p: &'static str = if prop == "C15" { "C15" } else { "C16" };
        let co = comp::sweep_mutators(p, seed, rounds);
        let mut cs = co.stats;
        let n_comp = cs.evaluations;
        cs.evaluations = 0;
        stats.add("comp.cases_evaluated", n_comp);
        stats.evaluations += n_comp;
        stats.merge(cs);
        for f in co.found {
            if engine::known_match(&known, &f.violation).is_some() {
                stats.bump(&format!("known.{}", f.violation.class));
            } else {
                comp_found.push(f);
            }
        }
    }

    // C01 / C03 / C17: systematic enumeration of the generator's decision tree from the empty stack
    let mut tree_info = json!(null);
    let mut tree_found: Vec<Found> = vec![];
    if prop == "C01" || prop == "C03" || prop == "C17" {
        let depth = std::env::var("PFSIM_TREE_DEPTH").ok().and_then(|s| s.parse().ok()).unwrap_or(match tier { Tier::Quick => 2usize, Tier::Thorough => 3 });
        let to = engine::tree_sweep(spec.prop, depth, &known, wall_cap(tier) / 2.0);
        tree_info = json!({"depth": to.depth, "nodes_judged": to.nodes, "exhaustive_for_depth": true,
            "note": "every opcode-choice sequence of length <= depth from the empty stack (6 protocols, framed and unframed for P>=4, EXT/buffer enabled, argument draws fixed to the exhausted-source fallbacks), found by steering the real generator through the fuzzer-bytes seam one choice byte at a time"});
        let n = to.nodes;
        let mut ts = to.stats;
        ts.evaluations = 0;
        ts.calls = 0;
        stats.merge(ts);
        stats.evaluations += n;
        stats.add("tree.nodes_judged", n);
        tree_found = to.found;
    }
    // C01 / C03 / C17: state cover of the reference machine's object-graph fragment, steered
    let mut cover_info = json!(null);
    if prop == "C01" || prop == "C03" || prop == "C17" {
        let (d1, d2, stride) = match tier { Tier::Quick => (8usize, 6usize, 4usize), Tier::Thorough => (10, 8, 1) };
        let co = synth::cover_sweep(spec.prop, d1, d2, stride, &known, &mut stats);
        stats.evaluations += co.steered as u64;
        stats.add("synth.state_cover_programs_judged", co.steered as u64);
        cover_info = json!({"reference_states_explored": co.states, "programs": co.leaves, "steered_and_judged": co.steered, "not_offered_by_the_generator": co.unsteerable,
            "depth_objects_vocabulary": d1, "depth_containers_vocabulary": d2, "stride": stride});
        tree_found.extend(co.found);
    }
    // C01 / C03 / C17: anomaly-directed exploration of the GLOBAL table
    let mut explore_info = json!(null);
    if prop == "C01" || prop == "C03" || prop == "C17" {
        let eo = edge::table_explore(spec.prop, &known, &mut stats);
        stats.evaluations += eo.runs + eo.deep_runs;
        stats.add("edge.table_explore.runs", eo.runs);
        stats.add("edge.table_explore.deep_runs_on_anomalous_entries", eo.deep_runs);
        explore_info = json!({"table_entries": eo.entries, "level_1_runs": eo.runs, "distinct_menus": eo.menus, "anomalous_entries": eo.anomalous_entries, "deep_runs": eo.deep_runs,
            "note": "every GLOBAL table entry x 3 consumer programs x every next choice byte, judged; entries whose menu of next opcodes differs from the modal menu are explored 2-3 choices deeper"});
        tree_found.extend(eo.found);
    }
    // C14 soak leg: long-lived generators (one per protocol, each on its own measuring thread)
    let mut soak_found: Vec<props::Violation> = vec![];
    if prop == "C14" {
        let calls = match tier { Tier::Quick => 6_000u64, Tier::Thorough => 400_000 };
        let res: Vec<(u64, Option<props::Violation>)> = std::thread::scope(|s| {
            let hs: Vec<_> = (0..6u8).map(|p| s.spawn(move || leak::soak(p, seed, calls))).collect();
            hs.into_iter().map(|h| h.join().unwrap()).collect()
        });
        for (done, v) in res {
            stats.add("fault.hist.soak_calls_on_long_lived_generators", done);
            if let Some(v) = v {
                if engine::known_match(&known, &v).is_none() {
                    soak_found.push(v);
                }
            }
        }
    }
    // C14: model-based synthesis of cycle-forming object-graph programs, steered through the generator
    let mut synth_info = json!(null);
    let mut synth_found: Vec<(desc::Scenario, props::Violation)> = vec![];
    if prop == "C14" {
        let (d1, d2) = match tier { Tier::Quick => (11usize, 7usize), Tier::Thorough => (13, 9) };
        let so = synth::leak_sweep(d1, d2, &mut stats);
        stats.evaluations += so.steered as u64;
        stats.add("synth.programs_steered_and_measured", so.steered as u64);
        synth_info = json!({"reference_states_explored": so.states, "reference_transitions": so.transitions, "cycle_forming_programs": so.programs,
            "steered_through_the_real_generator": so.steered, "not_offered_by_the_generator": so.unsteerable, "depth_objects_vocabulary": d1, "depth_containers_vocabulary": d2,
            "examples": so.samples,
            "note": "breadth-first exploration of the reference machine R3 (states up to renaming of identities, <= 4 stack slots, <= 1 memo entry) over two small vocabularies; every state in which the last opcode closed an alias cycle yields up to 4 shortest programs; each is steered through the real generator via the fuzzer-bytes seam and measured by the live-heap probe"});
        for (sc, v) in so.found {
            if engine::known_match(&known, &v).is_none() {
                synth_found.push((sc, v));
            }
        }
    }
    // oracle self-check against CPython on a sample of outputs (pristine) and damaged variants
    let mut py: Vec<(Vec<u8>, bool)> = vec![];
    stats.py_samples.sort_by_key(|s| s.0);
    for (i, b, _safe) in stats.py_samples.iter().take(96) {
        py.push((b.clone(), true));
        for d in pycheck::damaged_variants(b, *i) {
            py.push((d, false));
        }
    }
    let rep = pycheck::cross_check(&py);
    let mut harness_error = false;
    if !rep.hard.is_empty() {
        eprintln!("HARNESS ERROR: reference model disagrees with CPython pickletools on {} generator outputs:", rep.hard.len());
        for h in rep.hard.iter().take(5) {
            eprintln!("  {}", h);
        }
        harness_error = true;
    }
    for s in rep.soft.iter().take(3) {
        eprintln!("note: model/CPython disagreement on a damaged input: {}", s);
    }

    let trace = spec.trace;
    let spy = spec.spy;
    let prop_s: &'static str = spec.prop;
    let minimise = |f: &Found| -> (Value, bool, Value) {
        let tr = engine::trace_for(&spec, &f.scenario);
        let _ = trace;
        let (m, tries) = engine::minimise(prop_s, &f.scenario, &f.violation.class, tr, spy, 3000, 120.0);
        let still = engine::reproduces(prop_s, &m, &f.violation.class, engine::trace_for(&spec, &m), spy);
        let body = if still { m.to_json() } else { f.scenario.to_json() };
        (body, still, json!({"original": f.scenario.to_json(), "run_index": f.index, "minimiser_executions": tries}))
    };
    let (mut code, mut nviol) = report_and_exit_code(prop, &found, &stats, &known, &minimise, "scenario", Some((tier, seed, runs)));
    if code == 0 {
        if let Some(f) = tree_found.first() {
            let (m, tries) = engine::minimise(prop_s, &f.scenario, &f.violation.class, engine::trace_for(&spec, &f.scenario), spy, 500, 30.0);
            let path = engine::write_replay(prop, "scenario", m.to_json(), &f.violation, true, json!({"found_by": "decision-tree enumeration", "original": f.scenario.to_json(), "minimiser_executions": tries}));
            println!("violation class={} (decision-tree node) detail={}", f.violation.class, f.violation.detail);
            println!("VIOLATION property={} replay={}", prop, path);
            code = 1;
            nviol = tree_found.len();
        }
    }
    if code == 0 {
        if let Some((sc, v)) = synth_found.first() {
            let path = engine::write_replay(prop, "scenario", sc.to_json(), v, false, json!({"found_by": "model-based program synthesis + steering"}));
            println!("violation class={} (synthesised program) detail={}", v.class, v.detail);
            println!("VIOLATION property={} replay={}", prop, path);
            code = 1;
            nviol = synth_found.len();
        }
    }
    if code == 0 {
        if let Some(v) = soak_found.first() {
            let path = engine::write_replay(prop, "soak", json!({"verif_seed": seed.to_string(), "tier": tier.name()}), v, false, json!({}));
            println!("violation class={} detail={}", v.class, v.detail);
            println!("VIOLATION property={} replay={}", prop, path);
            code = 1;
            nviol = soak_found.len();
        }
    }
    if code == 0 {
        if let Some(f) = comp_found.first() {
            let path = engine::write_replay(prop, "comp", f.case.clone(), &f.violation, true, json!({"case_index": f.index}));
            println!("violation class={} comp_case={} detail={}", f.violation.class, f.index, f.violation.detail);
            println!("VIOLATION property={} replay={}", prop, path);
            code = 1;
            nviol = comp_found.len();
        }
    }
    let known_seen: u64 = stats.counters.iter().filter(|(k, _)| k.starts_with("known.")).map(|(_, v)| *v).sum();
    engine::write_evidence(engine::EvidenceIn {
        prop,
        tier,
        seed,
        level: if prop == "C15" || prop == "C16" { "fault_enumeration" } else { "exploration" },
        rule: spec.rule,
        stats: &stats,
        wall_s: out.wall_s,
        violations: nviol,
        known: known_seen as usize,
        extra: json!({
            "runs_requested": runs,
            "wall_cap_hit": out.capped,
            "decision_tree_enumeration": tree_info,
            "model_based_program_synthesis": synth_info,
            "model_based_state_cover": cover_info,
            "table_exploration": explore_info,
            "cpython_cross_check": {"available": rep.available, "compared": rep.compared, "hard_disagreements": rep.hard.len(), "soft_disagreements_on_damaged_inputs": rep.soft.len()},
        }),
        assumptions: engine::default_assumptions(),
        exhaustive: false,
    });
    println!(
        "done property={} runs={} calls={} distinct_nontrivial={} wall={:.1}s violations={} known_seen={}{}",
        prop,
        stats.evaluations,
        stats.calls,
        stats.nontrivial.len(),
        out.wall_s,
        nviol,
        known_seen,
        if out.capped { " (wall cap hit)" } else { "" }
    );
    if harness_error {
        return 2;
    }
    code
}

fn run_replay(path: &str) -> i32 {
    let Ok(txt) = std::fs::read_to_string(path) else {
        eprintln!("cannot read {}", path);
        return 2;
    };
    let Ok(doc) = serde_json::from_str::<Value>(&txt) else {
        eprintln!("bad json in {}", path);
        return 2;
    };
    let prop = doc["property"].as_str().unwrap_or("").to_string();
    let class = doc["violation"]["class"].as_str().unwrap_or("").to_string();
    match doc["kind"].as_str().unwrap_or("") {
        "scenario" => {
            let sc = match desc::Scenario::from_json(&doc["scenario"]) {
                Ok(s) => s,
                Err(e) => {
                    eprintln!("bad scenario: {}", e);
                    return 2;
                }
            };
            let (trace, spy) = match engine::solo_spec(&prop) {
                Some(spec) => (engine::trace_for(&spec, &sc), spec.spy),
                None => (exec::Trace::Light, true),
            };
            let vs = if prop == "C09" {
                // a hang is judged against the budget of the check that reported it
                let b = doc["extra"]["watchdog_budget_s"].as_u64().unwrap_or(180);
                procs::exec_isolated("C09", &sc, std::time::Duration::from_secs(b))
            } else {
                let recs = exec::run_scenario(&sc, trace, spy);
                let mut st = engine::Stats::default();
                engine::evaluate_any(&prop, &sc, &recs, &mut st)
            };
            for v in &vs {
                println!("replayed: class={} detail={}", v.class, v.detail);
            }
            if vs.iter().any(|v| v.class == class) {
                println!("VIOLATION property={} replay={}", prop, path);
                1
            } else {
                println!("not reproduced: property={} class={} (the tree no longer violates it on this input)", prop, class);
                0
            }
        }
        "soak" => {
            let b = &doc["scenario"];
            let seed: u64 = b["verif_seed"].as_str().and_then(|s| s.parse().ok()).unwrap_or(engine::DEFAULT_SEED);
            let calls = if b["tier"].as_str() == Some("thorough") { 400_000u64 } else { 6_000 };
            let mut hit = false;
            for p in 0..6u8 {
                if let (_, Some(v)) = leak::soak(p, seed, calls) {
                    println!("replayed: class={} detail={}", v.class, v.detail);
                    hit |= v.class == class;
                }
            }
            if hit {
                println!("VIOLATION property={} replay={}", prop, path);
                1
            } else {
                println!("not reproduced: property={} class={}", prop, class);
                0
            }
        }
        "sweep-prefix" => {
            if prop == "C07" {
                if let Some(code) = clock::reexec_under_shim() {
                    return code;
                }
            }
            let b = &doc["scenario"];
            let tier = if b["tier"].as_str() == Some("thorough") { Tier::Thorough } else { Tier::Quick };
            let seed: u64 = b["verif_seed"].as_str().and_then(|s| s.parse().ok()).unwrap_or(engine::DEFAULT_SEED);
            let runs = b["runs"].as_u64().unwrap_or(0);
            let upto = b["upto"].as_u64().unwrap_or(0);
            if let Some(t) = b["threads"].as_u64() {
                std::env::set_var("PFSIM_THREADS", t.to_string());
            }
            let classes: Vec<String> = if prop == "C07" {
                let (_, found, _) = c07_sweep(seed, (upto + 1).min(runs.max(upto + 1)), 3600.0, std::time::Instant::now());
                found.into_iter().map(|f| f.2.class).collect()
            } else if let Some(spec) = engine::spec_for(&prop, tier) {
                engine::sweep_solo_prefix(&spec, tier, seed, runs, upto, &[]).found.into_iter().map(|f| f.violation.class).collect()
            } else {
                vec![]
            };
            for c in &classes {
                println!("replayed: class={}", c);
            }
            let head = |c: &str| c.split('(').next().unwrap_or("").to_string();
            let by_head = b["match"].as_str() == Some("class-head");
            if classes.iter().any(|c| *c == class || (by_head && head(c) == head(&class))) {
                println!("VIOLATION property={} replay={}", prop, path);
                1
            } else {
                println!("not reproduced: property={} class={}", prop, class);
                0
            }
        }
        "cli" => {
            if let Err(e) = cli::build_front_ends() {
                eprintln!("HARNESS ERROR: {}", e);
                return 2;
            }
            let Some(case) = cli::Case::from_json(&doc["scenario"]) else {
                eprintln!("bad case");
                return 2;
            };
            let mut st = engine::Stats::default();
            let vs = cli::run_case(&case, "replay", &mut st);
            for v in &vs {
                println!("replayed: class={} detail={}", v.class, v.detail);
            }
            if vs.iter().any(|v| v.class == class) {
                println!("VIOLATION property={} replay={}", prop, path);
                1
            } else {
                println!("not reproduced: property={} class={}", prop, class);
                0
            }
        }
        "pyseq" => {
            if let Err(e) = cli::build_front_ends() {
                eprintln!("HARNESS ERROR: {}", e);
                return 2;
            }
            let Some(sq) = cli::PySeq::from_json(&doc["scenario"]) else {
                eprintln!("bad sequence");
                return 2;
            };
            match cli::run_python(&[sq.clone()]) {
                Ok(res) => match cli::judge_pyseq(&sq, &res[0]) {
                    Some(v) if v.class == class => {
                        println!("replayed: class={} detail={}", v.class, v.detail);
                        println!("VIOLATION property={} replay={}", prop, path);
                        1
                    }
                    _ => {
                        println!("not reproduced: property={} class={}", prop, class);
                        0
                    }
                },
                Err(e) => {
                    eprintln!("HARNESS ERROR: {}", e);
                    2
                }
            }
        }
        "plan" => {
            if let Some(code) = clock::reexec_under_shim() {
                return code;
            }
            let Some(plan) = threads::Plan::from_json(&doc["scenario"]) else {
                eprintln!("bad plan");
                return 2;
            };
            // on code where the property holds a plan is deterministic, so repeating it is sound; a
            // defect that lets per-instance hasher state or addresses reach the output shows in some
            // executions only: up to 8 executions, any dimension of the same violation class counts
            let head = class.split('(').next().unwrap_or(&class).to_string();
            let mut hit = None;
            for rep in 0..8 {
                let mut st = engine::Stats::default();
                let v = threads::judge(&plan, &mut st);
                if rep == 0 && v.sim.diverged {
                    println!("note: the recorded schedule no longer fits the execution (code changed); decisions fell back to 'keep running'");
                }
                if let Some(x) = v.violation {
                    if x.class.starts_with(&head) {
                        hit = Some((rep, x));
                        break;
                    }
                }
            }
            match hit {
                Some((rep, x)) => {
                    println!("replayed (execution {} of up to 8): class={} detail={}", rep + 1, x.class, x.detail);
                    println!("VIOLATION property={} replay={}", prop, path);
                    1
                }
                None => {
                    println!("not reproduced: property={} class={}", prop, class);
                    0
                }
            }
        }
        "procs" => {
            let seed: u64 = doc["scenario"]["seed"].as_str().and_then(|s| s.parse().ok()).unwrap_or(0);
            let batch = doc["scenario"]["batch"].as_u64().unwrap_or(100);
            let exe = std::env::current_exe().unwrap();
            let run = |prelude: u64| std::process::Command::new(&exe).args(["digest-batch", &seed.to_string(), &batch.to_string(), &prelude.to_string()]).output().map(|o| o.stdout).unwrap_or_default();
            let a = run(0);
            let mut differs = false;
            for k in 1..8u64 {
                if run(k % 5) != a {
                    differs = true;
                }
            }
            if differs {
                println!("VIOLATION property={} replay={}", prop, path);
                1
            } else {
                println!("not reproduced: property={} class={}", prop, class);
                0
            }
        }
        "reach" => {
            let vs = reach::replay(&doc["scenario"]);
            if vs.iter().any(|v| v.class == class) {
                println!("VIOLATION property={} replay={}", prop, path);
                1
            } else {
                println!("not reproduced: property={} class={}", prop, class);
                0
            }
        }
        "comp" => {
            let vs = comp::replay(&prop, &doc["scenario"]);
            for v in &vs {
                println!("replayed: class={} detail={}", v.class, v.detail);
            }
            if vs.iter().any(|v| v.class == class) {
                println!("VIOLATION property={} replay={}", prop, path);
                1
            } else {
                println!("not reproduced: property={} class={}", prop, class);
                0
            }
        }
        other => {
            eprintln!("unknown replay kind {}", other);
            2
        }
    }
}

/// digest of everything a run records: outputs, trace events, Spy records
fn run_digest(idx: u64) -> u64 {
    let specs = ["C17", "C04", "C08"];
    let spec = engine::solo_spec(specs[(idx % 3) as usize]).unwrap();
    // three quarters seeded runs, one quarter directed runs of every region of the layout
    // (extremal / wide / pair-deep, long-lived generators, enumerations, boundary-directed)
    let runs = spec.runs_quick;
    let sc = if idx % 4 != 3 {
        engine::draw_for(&spec, 12345, Tier::Quick, idx)
    } else {
        let j = desc::mix64(idx);
        let deep = engine::deep_count(&spec, Tier::Quick);
        let edge = engine::edge_count(&spec, Tier::Quick);
        let soak = engine::soak_count(&spec, Tier::Quick);
        let en = engine::enum_count(&spec, Tier::Quick);
        let i = match (idx / 4) % 4 {
            0 if deep > edge => runs + j % (deep - edge),
            1 if soak > 0 => runs + deep + j % soak,
            2 if en > 0 => runs + deep + soak + j % en,
            _ if edge > 0 => runs + (deep - edge) + j % edge,
            _ => idx,
        };
        engine::scenario_of(&spec, 12345, Tier::Quick, i, runs)
    };
    let recs = exec::run_scenario(&sc, engine::trace_for(&spec, &sc), spec.spy);
    let mut d = desc::digest(sc.to_json().to_string().as_bytes());
    for r in &recs {
        d = desc::mix64(d ^ desc::digest(format!("{:?}", r.outcome).as_bytes()));
        d = desc::mix64(d ^ desc::digest(format!("{:?}", r.events).as_bytes()));
        d = desc::mix64(d ^ desc::digest(format!("{:?}", r.spy).as_bytes()));
    }
    d
}

fn digests_with_threads(n: u64, nt: u64) -> Vec<u64> {
    let parts: Vec<Vec<(u64, u64)>> = std::thread::scope(|s| {
        let hs: Vec<_> = (0..nt)
            .map(|t| {
                s.spawn(move || {
                    let mut v = vec![];
                    let mut i = t;
                    while i < n {
                        v.push((i, run_digest(i)));
                        i += nt;
                    }
                    v
                })
            })
            .collect();
        hs.into_iter().map(|h| h.join().unwrap()).collect()
    });
    let mut flat: Vec<(u64, u64)> = parts.into_iter().flatten().collect();
    flat.sort();
    flat.into_iter().map(|x| x.1).collect()
}

fn selfhash(n: u64) -> u64 {
    let v = digests_with_threads(n, 4);
    let mut d = 0u64;
    for x in v {
        d = desc::mix64(d ^ x);
    }
    d
}

fn run_selftest() -> i32 {
    let mut ok = true;
    let n = runs_override(3000);
    // 1. determinism of recorded runs at several worker counts
    let a = digests_with_threads(n, 1);
    let b = digests_with_threads(n, 4);
    let c = digests_with_threads(n, 16);
    let mism = (0..n as usize).filter(|&i| a[i] != b[i] || a[i] != c[i]).count();
    println!("selftest determinism: {} descriptors x 3 executions (1, 4, 16 worker threads): {} mismatches", n, mism);
    ok &= mism == 0;
    // 2. across fresh processes
    let exe = std::env::current_exe().unwrap();
    let mut outs = vec![];
    for _ in 0..3 {
        if let Ok(o) = std::process::Command::new(&exe).args(["selfhash", &n.to_string()]).output() {
            outs.push(String::from_utf8_lossy(&o.stdout).trim().to_string());
        }
    }
    let here = format!("{:016x}", selfhash(n));
    let same = outs.len() == 3 && outs.iter().all(|o| *o == here);
    println!("selftest determinism across processes: in-process {} children {:?}: {}", here, outs, if same { "equal" } else { "DIFFERENT" });
    ok &= same;
    // 3. scheduler: same plan twice, and replay from the recorded schedule
    let mut sched_mism = 0;
    let plans = 150u64;
    for i in 0..plans {
        let plan = threads::draw_plan(777, i);
        let r1 = threads::run_plan(&plan);
        let r2 = threads::run_plan(&plan);
        let mut rp = plan.clone();
        rp.schedule = Some(r1.schedule.clone());
        let r3 = threads::run_plan(&rp);
        if r1.schedule != r2.schedule || r1.outputs != r2.outputs || r3.outputs != r1.outputs || r3.schedule != r1.schedule || r3.diverged {
            sched_mism += 1;
        }
    }
    println!("selftest scheduler: {} plans executed twice and replayed from the recorded schedule: {} mismatches", plans, sched_mism);
    ok &= sched_mism == 0;
    // 4. opcode table against the live pickletools
    if pycheck::python_enabled() {
        let script = format!("{}/sim/py/gen_optable.py", engine::verif_root());
        match std::process::Command::new("python3").args([&script, "--dump"]).output() {
            Ok(o) if o.status.success() => {
                let live: Vec<String> = String::from_utf8_lossy(&o.stdout).lines().map(|l| l.to_string()).collect();
                let mine: Vec<String> = optable::OPCODES
                    .iter()
                    .map(|op| {
                        let arg = match op.arg {
                            None => "None".to_string(),
                            Some(k) => format!("{:?}", k),
                        };
                        format!("{} {} {} {} {} {}", op.name, op.code, arg, op.proto, if op.before.is_empty() { "-" } else { op.before }, if op.after.is_empty() { "-" } else { op.after })
                    })
                    .collect();
                let same = live == mine;
                println!("selftest opcode table vs live pickletools.opcodes: {} rows, {}", mine.len(), if same { "identical" } else { "DIFFERENT" });
                if !same {
                    for (l, m) in live.iter().zip(mine.iter()) {
                        if l != m {
                            println!("  live [{}] table [{}]", l, m);
                        }
                    }
                }
                ok &= same;
            }
            _ => println!("selftest opcode table: python3 not available, skipped"),
        }
    }
    // 5. lexer / dis model against CPython on damaged inputs (soft disagreements are listed)
    let mut samples: Vec<(Vec<u8>, bool)> = vec![];
    for i in 0..std::env::var("PFSIM_SELFTEST_PY").ok().and_then(|s| s.parse().ok()).unwrap_or(400u64) {
        let spec = engine::solo_spec("C04").unwrap();
        let sc = engine::draw_for(&spec, 4242, Tier::Quick, i);
        for r in exec::run_scenario(&sc, exec::Trace::Off, false) {
            if let Some(b) = r.outcome.bytes() {
                if b.len() < 4000 {
                    samples.push((b.to_vec(), true));
                    for d in pycheck::damaged_variants(b, i) {
                        samples.push((d, false));
                    }
                }
            }
        }
    }
    let rep = pycheck::cross_check(&samples);
    println!("selftest model vs CPython: available={} compared={} disagreements on generator outputs={} on damaged inputs={}", rep.available, rep.compared, rep.hard.len(), rep.soft.len());
    for m in rep.hard.iter().chain(rep.soft.iter()).take(5) {
        println!("  {}", m);
    }
    ok &= rep.hard.is_empty() && rep.soft.is_empty();
    if ok {
        println!("selftest: OK");
        0
    } else {
        println!("selftest: FAILED");
        2
    }
}
