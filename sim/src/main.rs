//! pfsim — deterministic simulation harness for pickle-fuzzer (see /verif/DESIGN.md)

mod desc;
mod engine;
mod exec;
mod hist;
mod lexer;
mod machine;
mod mix;
mod optable;
mod props;
mod pycheck;

use engine::{Tier, Found};
use serde_json::{json, Value};

fn usage() -> ! {
    eprintln!("usage: pfsim check <C01..C18> <quick|thorough> | pfsim replay <file> | pfsim selftest");
    std::process::exit(2);
}

fn main() {
    exec::install_quiet_panic_hook();
    let args: Vec<String> = std::env::args().collect();
    if args.len() < 2 {
        usage();
    }
    let code = match args[1].as_str() {
        "check" => {
            if args.len() < 4 {
                usage();
            }
            let tier = match args[3].as_str() {
                "quick" => Tier::Quick,
                "thorough" => Tier::Thorough,
                _ => usage(),
            };
            run_check(&args[2], tier)
        }
        "replay" => {
            if args.len() < 3 {
                usage();
            }
            run_replay(&args[2])
        }
        "selftest" => run_selftest(),
        _ => usage(),
    };
    std::process::exit(code);
}

fn runs_override(default: u64) -> u64 {
    std::env::var("PFSIM_RUNS").ok().and_then(|s| s.parse().ok()).unwrap_or(default)
}

fn wall_cap(tier: Tier) -> f64 {
    std::env::var("PFSIM_WALL_CAP")
        .ok()
        .and_then(|s| s.parse().ok())
        .unwrap_or(match tier {
            Tier::Quick => 150.0,
            Tier::Thorough => 1500.0,
        })
}

/// returns process exit code
fn run_check(prop: &str, tier: Tier) -> i32 {
    let seed = engine::verif_seed();
    println!("pfsim check property={} tier={} VERIF_SEED={} threads={}", prop, tier.name(), seed, engine::n_threads());
    match prop {
        "C01" | "C02" | "C03" | "C04" | "C05" | "C06" | "C08" | "C10" | "C11" | "C15" | "C16" | "C17" => check_solo_family(prop, tier, seed),
        _ => {
            eprintln!("property {} has no check yet", prop);
            2
        }
    }
}

pub fn report_and_exit_code(
    prop: &str,
    found: &[Found],
    stats: &engine::Stats,
    known: &[engine::KnownFinding],
    minimise: &dyn Fn(&Found) -> (Value, bool, Value),
    kind: &str,
) -> (i32, usize) {
    // known findings listed for this property
    for k in known.iter().filter(|k| k.status == "known" && k.property == prop) {
        let seen = stats.counters.get(&format!("known.{}", k.class)).copied().unwrap_or(0);
        println!("KNOWN-FINDING: property={} class={} {} (seen {} times in this run)", prop, k.class, k.what, seen);
    }
    if let Some(f) = found.first() {
        let (body, minimised, extra) = minimise(f);
        let path = engine::write_replay(prop, kind, body, &f.violation, minimised, extra);
        println!("violation class={} run_index={} detail={}", f.violation.class, f.index, f.violation.detail);
        println!("VIOLATION property={} replay={}", prop, path);
        (1, found.len())
    } else {
        (0, 0)
    }
}

fn check_solo_family(prop: &str, tier: Tier, seed: u64) -> i32 {
    let spec = engine::solo_spec(prop).unwrap();
    let known = engine::load_known();
    let runs = runs_override(match tier {
        Tier::Quick => spec.runs_quick,
        Tier::Thorough => spec.runs_thorough,
    });
    let out = engine::sweep_solo(&spec, tier, seed, runs, wall_cap(tier), &known);
    let mut stats = out.stats;
    let found = out.found;

    // oracle self-check against CPython on a sample of outputs (pristine) and damaged variants
    let mut py: Vec<(Vec<u8>, bool)> = vec![];
    stats.py_samples.sort_by_key(|s| s.0);
    for (i, b, _safe) in stats.py_samples.iter().take(96) {
        py.push((b.clone(), true));
        for d in pycheck::damaged_variants(b, *i) {
            py.push((d, false));
        }
    }
    let rep = pycheck::cross_check(&py);
    let mut harness_error = false;
    if !rep.hard.is_empty() {
        eprintln!("HARNESS ERROR: reference model disagrees with CPython pickletools on {} generator outputs:", rep.hard.len());
        for h in rep.hard.iter().take(5) {
            eprintln!("  {}", h);
        }
        harness_error = true;
    }
    for s in rep.soft.iter().take(3) {
        eprintln!("note: model/CPython disagreement on a damaged input: {}", s);
    }

    let trace = spec.trace;
    let spy = spec.spy;
    let prop_s: &'static str = spec.prop;
    let minimise = |f: &Found| -> (Value, bool, Value) {
        let tr = engine::trace_for(&spec, &f.scenario);
        let _ = trace;
        let (m, tries) = engine::minimise(prop_s, &f.scenario, &f.violation.class, tr, spy, 3000, 120.0);
        let still = engine::reproduces(prop_s, &m, &f.violation.class, engine::trace_for(&spec, &m), spy);
        let body = if still { m.to_json() } else { f.scenario.to_json() };
        (body, still, json!({"original": f.scenario.to_json(), "run_index": f.index, "minimiser_executions": tries}))
    };
    let (code, nviol) = report_and_exit_code(prop, &found, &stats, &known, &minimise, "scenario");
    let known_seen: u64 = stats.counters.iter().filter(|(k, _)| k.starts_with("known.")).map(|(_, v)| *v).sum();
    engine::write_evidence(engine::EvidenceIn {
        prop,
        tier,
        seed,
        level: if prop == "C15" || prop == "C16" { "fault_enumeration" } else { "exploration" },
        rule: spec.rule,
        stats: &stats,
        wall_s: out.wall_s,
        violations: nviol,
        known: known_seen as usize,
        extra: json!({
            "runs_requested": runs,
            "wall_cap_hit": out.capped,
            "cpython_cross_check": {"available": rep.available, "compared": rep.compared, "hard_disagreements": rep.hard.len(), "soft_disagreements_on_damaged_inputs": rep.soft.len()},
        }),
        assumptions: engine::default_assumptions(),
        exhaustive: false,
    });
    println!(
        "done property={} runs={} calls={} distinct_nontrivial={} wall={:.1}s violations={} known_seen={}{}",
        prop,
        stats.evaluations,
        stats.calls,
        stats.nontrivial.len(),
        out.wall_s,
        nviol,
        known_seen,
        if out.capped { " (wall cap hit)" } else { "" }
    );
    if harness_error {
        return 2;
    }
    code
}

fn run_replay(path: &str) -> i32 {
    let Ok(txt) = std::fs::read_to_string(path) else {
        eprintln!("cannot read {}", path);
        return 2;
    };
    let Ok(doc) = serde_json::from_str::<Value>(&txt) else {
        eprintln!("bad json in {}", path);
        return 2;
    };
    let prop = doc["property"].as_str().unwrap_or("").to_string();
    let class = doc["violation"]["class"].as_str().unwrap_or("").to_string();
    match doc["kind"].as_str().unwrap_or("") {
        "scenario" => {
            let sc = match desc::Scenario::from_json(&doc["scenario"]) {
                Ok(s) => s,
                Err(e) => {
                    eprintln!("bad scenario: {}", e);
                    return 2;
                }
            };
            let (trace, spy) = match engine::solo_spec(&prop) {
                Some(spec) => (engine::trace_for(&spec, &sc), spec.spy),
                None => (exec::Trace::Light, true),
            };
            let recs = exec::run_scenario(&sc, trace, spy);
            let mut st = engine::Stats::default();
            let vs = engine::evaluate_any(&prop, &sc, &recs, &mut st);
            for v in &vs {
                println!("replayed: class={} detail={}", v.class, v.detail);
            }
            if vs.iter().any(|v| v.class == class) {
                println!("VIOLATION property={} replay={}", prop, path);
                1
            } else {
                println!("not reproduced: property={} class={} (the tree no longer violates it on this input)", prop, class);
                0
            }
        }
        other => {
            eprintln!("unknown replay kind {}", other);
            2
        }
    }
}

fn run_selftest() -> i32 {
    println!("selftest: nothing yet");
    0
}
