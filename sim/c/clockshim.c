/* Clock seam for the C07 simulation: an LD_PRELOAD shim that adds a harness-controlled offset to
 * clock_gettime() (which is what std::time::Instant::now and SystemTime::now call), so the
 * simulator can inject clock jumps at chosen emission steps at no real-time cost.
 * The code under test reads no clock today; this seam exists so that a change that starts to
 * (a time budget, a time-derived seed) is met by the "clock jump" fault kind. */
#define _GNU_SOURCE
#include <dlfcn.h>
#include <stdatomic.h>
#include <stdint.h>
#include <sys/time.h>
#include <time.h>

static _Atomic int64_t offset_ns = 0;
static _Atomic uint64_t reads = 0;
static int (*real_clock_gettime)(clockid_t, struct timespec *) = 0;

void pfsim_clock_advance(int64_t ns) { atomic_fetch_add(&offset_ns, ns); }
int64_t pfsim_clock_offset(void) { return atomic_load(&offset_ns); }
uint64_t pfsim_clock_reads(void) { return atomic_load(&reads); }

static void resolve(void) {
  if (!real_clock_gettime) real_clock_gettime = (int (*)(clockid_t, struct timespec *))dlsym(RTLD_NEXT, "clock_gettime");
}

/* the real monotonic clock, for the harness's own budgets */
int64_t pfsim_real_monotonic_ns(void) {
  struct timespec ts;
  resolve();
  if (!real_clock_gettime || real_clock_gettime(CLOCK_MONOTONIC, &ts) != 0) return 0;
  return (int64_t)ts.tv_sec * 1000000000 + ts.tv_nsec;
}

int clock_gettime(clockid_t id, struct timespec *ts) {
  resolve();
  if (!real_clock_gettime) return -1;
  int r = real_clock_gettime(id, ts);
  if (r == 0) {
    atomic_fetch_add(&reads, 1);
    int64_t o = atomic_load(&offset_ns);
    if (o) {
      int64_t ns = (int64_t)ts->tv_nsec + o % 1000000000;
      ts->tv_sec += o / 1000000000 + ns / 1000000000;
      ts->tv_nsec = ns % 1000000000;
    }
  }
  return r;
}

int gettimeofday(struct timeval *tv, void *tz) {
  struct timespec ts;
  (void)tz;
  if (clock_gettime(CLOCK_REALTIME, &ts) != 0) return -1;
  {
    tv->tv_sec = ts.tv_sec;
    tv->tv_usec = ts.tv_nsec / 1000;
  }
  return 0;
}
