#!/usr/bin/env python3
"""Sensitivity run: applies each /verif/mutants/*.patch (or each /verif/seeded/<id>/patch.diff) to a
scratch git worktree of /repo (never to /repo itself), rebuilds pfsim against it (cargo `paths`
override, per-slot target dirs), runs the quick checks and verifies that
  - a property-breaking edit makes the check of its property exit 1 with a replay that reproduces,
  - a benign edit leaves every check green.
Scratch worktrees live under /tmp/pfm and are removed afterwards; per-slot build output lives under
/verif/target/mut (ignored by git).

usage: tools/sensitivity.py [--tests] [--slots N] [--seeded] [--all-props] [name ...]
"""
import json, os, subprocess, sys, shutil, time
from concurrent.futures import ThreadPoolExecutor

ROOT = os.path.dirname(os.path.dirname(os.path.abspath(__file__)))
ALL = ["C%02d" % i for i in range(1, 19)]

def sh(cmd, cwd=None, env=None, timeout=1800):
    e = dict(os.environ)
    e["CARGO_NET_OFFLINE"] = "true"
    if env:
        e.update(env)
    p = subprocess.run(cmd, cwd=cwd, env=e, capture_output=True, text=True, timeout=timeout)
    return p.returncode, p.stdout, p.stderr

def run_one(slot, name, patch, expected, run_tests, all_props):
    t0 = time.time()
    wt = "/tmp/pfm/wt-%d" % slot
    root = "/tmp/pfm/root-%d" % slot
    tgt = os.path.join(ROOT, "target", "mut", "slot%d" % slot)
    res = {"name": name, "expected_to_fail": expected, "checks": {}, "ok": False}
    sh(["git", "-C", "/repo", "worktree", "remove", "--force", wt])
    shutil.rmtree(wt, ignore_errors=True)
    os.makedirs("/tmp/pfm", exist_ok=True)
    rc, o, e = sh(["git", "-C", "/repo", "worktree", "add", "--detach", "-f", wt, "HEAD"])
    if rc != 0:
        res["error"] = "worktree: " + e[-300:]
        return res
    try:
        rc, o, e = sh(["git", "-C", wt, "apply", patch])
        if rc != 0:
            res["error"] = "patch does not apply: " + e[-300:]
            return res
        if run_tests:
            rc, o, e = sh(["cargo", "test", "--workspace", "--no-fail-fast", "--offline", "--target-dir", os.path.join(tgt, "repo-tests")], cwd=wt)
            res["tests_pass"] = (rc == 0)
            if rc != 0:
                res["tests_tail"] = (o + e)[-600:]
        rc, o, e = sh(["cargo", "build", "--release", "--offline", "-q", "--config", 'paths=["%s"]' % wt, "--target-dir", os.path.join(tgt, "sim")], cwd=os.path.join(ROOT, "sim"))
        if rc != 0:
            res["error"] = "mutant does not compile: " + e[-600:]
            res["compiles"] = False
            return res
        res["compiles"] = True
        shutil.rmtree(root, ignore_errors=True)
        os.makedirs(root)
        os.symlink(os.path.join(ROOT, "sim"), os.path.join(root, "sim"))
        shutil.copy(os.path.join(ROOT, "known_findings.json"), root)
        # share the front-end build cache of the slot
        os.makedirs(os.path.join(tgt, "fe"), exist_ok=True)
        os.symlink(os.path.join(tgt, "fe"), os.path.join(root, "target"))
        pfsim = os.path.join(tgt, "sim", "release", "pfsim")
        env = {"PFSIM_ROOT": root, "PF_REPO": wt, "PFSIM_THREADS": "8"}
        props = ALL if (all_props or not expected) else expected
        caught = []
        for p in props:
            rc, o, e = sh([pfsim, "check", p, "quick"], env=env, timeout=900)
            line = [l for l in o.splitlines() if l.startswith("VIOLATION")]
            cls = [l for l in o.splitlines() if l.startswith("violation class=")]
            entry = {"exit": rc, "class": cls[0][:200] if cls else None}
            if rc == 1 and line:
                replay = line[0].split("replay=")[1].strip()
                rc2, o2, e2 = sh([pfsim, "replay", replay], env=env, timeout=600)
                entry["replay_reproduces"] = (rc2 == 1)
                caught.append(p)
            elif rc not in (0, 1):
                entry["stderr"] = (e or o)[-400:]
            res["checks"][p] = entry
        res["caught_by"] = caught
        if expected:
            res["ok"] = all(res["checks"].get(p, {}).get("exit") == 1 and res["checks"][p].get("replay_reproduces") for p in expected)
        else:
            res["ok"] = all(c["exit"] == 0 for c in res["checks"].values())
    finally:
        sh(["git", "-C", "/repo", "worktree", "remove", "--force", wt])
        shutil.rmtree(wt, ignore_errors=True)
        shutil.rmtree(root, ignore_errors=True)
    res["wall_s"] = round(time.time() - t0, 1)
    return res

def main():
    args = sys.argv[1:]
    run_tests = "--tests" in args
    all_props = "--all-props" in args
    seeded = "--seeded" in args
    slots = 4
    if "--slots" in args:
        slots = int(args[args.index("--slots") + 1])
    names = [a for a in args if not a.startswith("--") and not a.isdigit()]
    jobs = []
    if seeded:
        base = os.path.join(ROOT, "seeded")
        for d in sorted(os.listdir(base)):
            meta = os.path.join(base, d, "meta.json")
            if os.path.exists(meta) and (not names or d in names):
                m = json.load(open(meta))
                jobs.append((d, os.path.join(base, d, "patch.diff"), m.get("breaks", [])))
        out_file = os.path.join(ROOT, "seeded", "results.json")
    else:
        idx = json.load(open(os.path.join(ROOT, "mutants", "index.json")))
        for n, m in idx.items():
            if not names or n in names:
                jobs.append((n, os.path.join(ROOT, "mutants", n + ".patch"), m["expected_to_fail"]))
        out_file = os.path.join(ROOT, "mutants", "results.json")
    results = {}
    if os.path.exists(out_file) and names:
        results = json.load(open(out_file))
    # slot-affine scheduling: job i runs on slot i % slots, slots run in parallel
    def slot_worker(slot):
        out = []
        for i, (n, patch, exp) in enumerate(jobs):
            if i % slots == slot:
                r = run_one(slot, n, patch, exp, run_tests, all_props)
                print("%-40s %s caught_by=%s %s" % (n, "OK " if r["ok"] else "MISS", r.get("caught_by"), r.get("error", "")), flush=True)
                out.append(r)
        return out
    with ThreadPoolExecutor(max_workers=slots) as ex:
        for rs in ex.map(slot_worker, range(slots)):
            for r in rs:
                results[r["name"]] = r
    json.dump(results, open(out_file, "w"), indent=1, sort_keys=True)
    bad = [n for n, r in results.items() if not r["ok"]]
    print("%d/%d as expected; not as expected: %s" % (len(results) - len(bad), len(results), bad))
    sys.exit(1 if bad else 0)

if __name__ == "__main__":
    main()
