#!/bin/bash
# zero-alarm check: every quick check under several VERIF_SEED values; prints one line per (seed, property)
cd "$(dirname "$0")/.."
bad=0
for seed in "${@:-2 3 5 7 11}"; do
  for s in $seed; do
    for p in C01 C02 C03 C04 C05 C06 C07 C08 C09 C10 C11 C12 C13 C14 C15 C16 C17 C18; do
      out=$(VERIF_SEED=$s ./check $p quick 2>&1); code=$?
      echo "seed=$s $p exit=$code $(echo "$out" | grep -E '^(VIOLATION|HARNESS)' | head -1 | cut -c1-160)"
      [ $code -ne 0 ] && bad=$((bad+1))
    done
  done
done
echo "non-zero exits: $bad"
