#!/usr/bin/env python3
"""Generates /verif/mutants/*.patch (deliberate property-breaking edits of /repo, and a few benign
ones) from the table below, as unified diffs against /repo HEAD. Never applied to /repo itself by the
sensitivity run: tools/sensitivity.sh applies each to a scratch worktree."""
import json, os, subprocess, sys, shutil, tempfile

ROOT = os.path.dirname(os.path.dirname(os.path.abspath(__file__)))
OUT = os.path.join(ROOT, "mutants")

V = "src/generator/validation.rs"
S = "src/generator/stack_ops.rs"
E = "src/generator/emission.rs"
C = "src/generator/core.rs"
G = "src/generator/mod.rs"
SRC = "src/generator/source.rs"
ST = "src/state.rs"
M = "src/main.rs"
MM = "src/mutators/mod.rs"
TC = "src/mutators/typeconfusion.rs"

# name: (expected-to-be-caught-by [properties], [(file, old, new)], description)
MUTANTS = {
 # ---- C01
 "c01_tuple2_needs_one_item": (["C01"], [(V, "Tuple2 => self.state.stack.len() >= 2,", "Tuple2 => self.state.stack.len() >= 1,")], "TUPLE2 allowed with a single item on the stack"),
 "c01_cleanup_leaves_two": (["C01"], [(S, "            } else if stack_len == 2 {\n                self.emit_opcode(Tuple2);", "            } else if stack_len == 2 {\n                break;")], "cleanup stops with two items left: STOP finds 2 objects"),
 # ---- C02
 "c02_get_without_fallback": (["C02"], [(E, """                    let index =
                        if self.unsafe_mutations || self.state.memo.contains_key(&mutated_index) {
                            mutated_index
                        } else {
                            index
                        };
                    self.output.push(Get.as_u8());""", """                    let index = mutated_index;
                    self.output.push(Get.as_u8());""")], "GET uses the mutated index without checking that it exists"),
 "c02_put_index_off_by_one": (["C02"], [(E, "                let index = self.state.memo.len();\n                self.output.push(Put.as_u8());", "                let index = self.state.memo.len() + 1;\n                self.output.push(Put.as_u8());")], "PUT stores under len+1, colliding with MEMOIZE's implicit index"),
 "c02_binput_guard_removed": (["C02"], [(V, "if opcode == BinPut && self.state.memo.len() >= 256 {", "if opcode == BinPut && self.state.memo.len() >= 100_000 {")], "BINPUT wraps again after 256 stores (the fixed defect, re-opened)"),
 # ---- C03
 "c03_append_checks_wrong_slot": (["C03"], [(V, "Append => self.state.stack.len() >= 2 && self.is_list_at(1),", "Append => self.state.stack.len() >= 2 && self.is_list_at(0),")], "APPEND guard looks at the item instead of the target"),
 "c03_setitems_parity_dropped": (["C03"], [(V, """                    && self.is_dict_at_mark()
                    && self
                        .count_items_to_mark()
                        .is_some_and(|count| count > 0 && count % 2 == 0)""", """                    && self.is_dict_at_mark()
                    && self
                        .count_items_to_mark()
                        .is_some_and(|count| count > 0)""")], "SETITEMS allowed with an odd number of operands"),
 "c03_newobjex_operands_swapped": (["C03"], [(V, "                    && self.is_tuple_at(1)\n                    && self.is_dict_at(0)", "                    && self.is_tuple_at(0)\n                    && self.is_dict_at(1)")], "NEWOBJ_EX guard has tuple and dict depths swapped"),
 # ---- C04
 "c04_string_backslash_not_escaped": (["C04"], [(E, "                    .replace('\\\\', \"\\\\\\\\\") // backslash must be first\n", "")], "STRING payload: backslashes are not escaped (a trailing one swallows the closing quote's meaning, \\x needs hex digits)"),
 "benign_string_quote_not_escaped": ([], [(E, "                    .replace('\\'', \"\\\\'\")\n", "")], "STRING payload: an unescaped inner single quote is accepted by pickletools (first/last quote are stripped) - benign for C04 as stated"),
 "c04_binunicode_short_length": (["C04"], [(E, """                self.output.push(BinUnicode.as_u8());
                self.output
                    .extend_from_slice(&(bytes.len() as u32).to_le_bytes());""", """                self.output.push(BinUnicode.as_u8());
                self.output
                    .extend_from_slice(&(bytes.len() as u16).to_le_bytes());""")], "BINUNICODE length written as 2 bytes"),
 "c04_ext4_negative_again": (["C04"], [(E, "let code = source.gen_u32() % (i32::MAX as u32) + 1;", "let code = source.gen_u32().saturating_add(1);")], "EXT4 codes >= 2^31 again (the fixed defect, re-opened)"),
 # ---- C05
 "c05_proto_in_protocol_1": (["C05"], [(E, "if self.state.version == Version::V0 || self.state.version == Version::V1 {\n            return;", "if self.state.version == Version::V0 {\n            return;")], "PROTO emitted for protocol 1"),
 "c05_int_from_next_protocol": (["C05"], [(E, "        // get all opcodes for the current version\n        let version = self.state.version as u8;", "        // get all opcodes for the current version\n        let version = (self.state.version as u8 + 1).min(5);")], "integer variant chosen from the next protocol's table"),
 "c05_tail_tuple_again": (["C05"], [(S, "if self.state.version < Version::V2 {", "if self.state.version < Version::V0 {")], "protocol 0/1 tail uses TUPLE2/TUPLE3 again (the fixed defect, re-opened)"),
 # ---- C06
 "c06_frame_length_plus_one": (["C06"], [(C, "copy_from_slice(&(frame_size as u64).to_le_bytes());", "copy_from_slice(&(frame_size as u64 + 1).to_le_bytes());")], "FRAME length off by one"),
 "c06_frame_in_protocol_3": (["C06"], [(C, "let use_frame = self.state.version >= Version::V4 && source.gen_bool();", "let use_frame = self.state.version >= Version::V3 && source.gen_bool();")], "FRAME used for protocol 3"),
 # ---- C07
 "c07_memo_keys_unsorted": (["C07"], [(E, "                let mut keys: Vec<_> = self.state.memo.keys().copied().collect();\n                keys.sort_unstable();\n                if !keys.is_empty() {\n                    let index = keys[source.gen_range(0, keys.len())];\n                    let mutated_index = self.mutate_memo_index(index, source);\n                    // in unsafe mode, allow any mutated index; otherwise validate it exists\n                    let index =\n                        if self.unsafe_mutations || self.state.memo.contains_key(&mutated_index) {\n                            mutated_index\n                        } else {\n                            index\n                        };\n                    self.output.push(LongBinGet.as_u8());", "                let mut keys: Vec<_> = self.state.memo.keys().copied().collect();\n                if !keys.is_empty() {\n                    let index = keys[source.gen_range(0, keys.len())];\n                    let mutated_index = self.mutate_memo_index(index, source);\n                    // in unsafe mode, allow any mutated index; otherwise validate it exists\n                    let index =\n                        if self.unsafe_mutations || self.state.memo.contains_key(&mutated_index) {\n                            mutated_index\n                        } else {\n                            index\n                        };\n                    self.output.push(LongBinGet.as_u8());")], "LONG_BINGET picks from unsorted hash-map keys"),
 "c07_thread_local_call_counter": (["C07", "C08"], [(G, "        let mut rng = if let Some(seed) = self.seed {\n            ChaCha8Rng::seed_from_u64(seed)", "        thread_local! { static CALLS: std::cell::Cell<u64> = const { std::cell::Cell::new(0) }; }\n        let nth = CALLS.with(|c| { let v = c.get(); c.set(v + 1); v });\n        let mut rng = if let Some(seed) = self.seed {\n            ChaCha8Rng::seed_from_u64(seed ^ (nth / 3))")], "per-thread call counter leaks into the PRNG seed after the third call on a thread"),
 "c07_process_wide_counter": (["C07", "C08"], [(G, "    pub fn generate_from_arbitrary(&mut self, data: &[u8]) -> Result<Vec<u8>> {\n        let mut u = Unstructured::new(data);", "    pub fn generate_from_arbitrary(&mut self, data: &[u8]) -> Result<Vec<u8>> {\n        static N: std::sync::atomic::AtomicUsize = std::sync::atomic::AtomicUsize::new(0);\n        let n = N.fetch_add(1, std::sync::atomic::Ordering::Relaxed);\n        let data = if n % 5 == 4 && !data.is_empty() { &data[1..] } else { data };\n        let mut u = Unstructured::new(data);")], "process-wide call counter: every fifth bytes-mode call drops the first input byte"),
 # ---- C08
 "c08_reset_removed": (["C08"], [(C, "        self.reset();\n\n", "")], "no reset at the start of a call (the fixed defect, re-opened)"),
 "c08_state_reset_keeps_memo": (["C08"], [(ST, "        self.memo.clear();\n", "")], "State::reset() forgets to clear the memo"),
 # ---- C09
 "c09_range_subtraction_overflows": (["C09"], [(C, "let range = self.max_opcodes.saturating_sub(self.min_opcodes);", "let range = self.max_opcodes - self.min_opcodes;")], "min > max overflows"),
 "c09_get_index_out_of_bounds": (["C09"], [(E, "                    let index = keys[source.gen_range(0, keys.len())];\n                    let mutated_index = self.mutate_memo_index(index, source);\n                    // in unsafe mode, allow any mutated index; otherwise validate it exists\n                    let index =\n                        if self.unsafe_mutations || self.state.memo.contains_key(&mutated_index) {\n                            mutated_index\n                        } else {\n                            index\n                        };\n                    self.output.push(Get.as_u8());", "                    let index = keys[source.gen_range(0, keys.len() + 1)];\n                    let mutated_index = self.mutate_memo_index(index, source);\n                    // in unsafe mode, allow any mutated index; otherwise validate it exists\n                    let index =\n                        if self.unsafe_mutations || self.state.memo.contains_key(&mutated_index) {\n                            mutated_index\n                        } else {\n                            index\n                        };\n                    self.output.push(Get.as_u8());")], "GET index drawn one past the end"),
 "c09_abort_on_deep_stack": (["C09"], [(S, "        // remove any MARKs by using TUPLE\n", "        if self.state.stack.len() > 150 {\n            std::process::abort();\n        }\n        // remove any MARKs by using TUPLE\n")], "process abort when the final stack is deep (only visible from outside the process)"),
 "c09_recursive_drop_again": (["C09"], [("src/stack.rs", "        if Rc::strong_count(&self.0) != 1 {\n            return;\n        }\n        let mut pending", "        if Rc::strong_count(&self.0) != usize::MAX {\n            return;\n        }\n        let mut pending")], "object graphs are dropped recursively again (the fixed defect, re-opened): only deep periodic-script runs overflow the stack"),
 "c09_spins_forever_on_a_rare_final_stack": (["C09"], [(S, "        // remove any MARKs by using TUPLE\n", "        if self.state.stack.len() == 97 {\n            loop {\n                std::hint::spin_loop();\n            }\n        }\n        // remove any MARKs by using TUPLE\n")], "never returns when the final stack has exactly 97 items (hang: only the watchdog of the process sweep can see it)"),
 # ---- C10
 "c10_ext_enabled_by_default": (["C10"], [(G, "            allow_ext_opcodes: false,", "            allow_ext_opcodes: true,")], "EXT opcodes on by default"),
 "c10_type_confusion_injects_ext": (["C10"], [(TC, "                let mut bytes = vec![OpcodeKind::BinInt.as_u8()];\n                bytes.extend_from_slice(&source.gen_i32().to_le_bytes());\n                bytes", "                let _ = source.gen_i32();\n                vec![OpcodeKind::Ext1.as_u8(), 7]")], "type confusion's int replacement is an EXT1 opcode"),
 # ---- C11
 "c11_one_extra_body_opcode": (["C11"], [(C, "for _ in 0..target_opcodes {", "for _ in 0..=target_opcodes {")], "body loop runs T+1 times"),
 "c11_silent_skip_of_long_payloads": (["C11"], [(E, "                let bytes = s.into_bytes();\n                if bytes.len() < 256 {\n                    self.output.push(ShortBinUnicode.as_u8());", "                let bytes = s.into_bytes();\n                if bytes.len() < 16 {\n                    self.output.push(ShortBinUnicode.as_u8());")], "SHORT_BINUNICODE silently emits nothing for payloads >= 16 bytes"),
 # ---- C12
 "c12_build_unreachable": (["C12"], [(V, "                    && self.is_instance_at(1)\n                    && (self.is_tuple_at(0) || self.is_dict_at(0))", "                    && self.is_instance_at(0)\n                    && (self.is_tuple_at(0) || self.is_dict_at(0))")], "BUILD guard can never be satisfied"),
 "c12_always_framed": (["C12"], [(C, "let use_frame = self.state.version >= Version::V4 && source.gen_bool();", "let use_frame = self.state.version >= Version::V4 && (source.gen_bool() || true);")], "unframed protocol-4/5 pickles no longer occur"),
 # ---- C13
 "c13_cli_drops_mutation_rate": (["C13"], [(M, "            generator = generator\n                .with_mutators(mutators)\n                .with_mutation_rate(args.mutation_rate)\n", "            generator = generator\n                .with_mutators(mutators)\n")], "single-file mode ignores --mutation-rate"),
 "c13_all_omits_character": (["C13"], [(MM, "            MutatorKind::Character,\n            MutatorKind::Typeconfusion,\n        ];", "            MutatorKind::Typeconfusion,\n        ];")], "--mutators all omits the character mutator"),
 "c13_batch_seed_plus_index": (["C13"], [(M, "                if let Some(s) = seed {\n                    generator = generator.with_seed(s);", "                if let Some(s) = seed {\n                    generator = generator.with_seed(s.wrapping_add(idx as u64 / 7));")], "batch mode perturbs the seed for samples >= 7"),
 "c13_batch_swallows_write_errors": (["C13"], [(M, "                if let Err(e) = std::fs::write(&file_path, &bytecode) {\n                    return Some((idx, format!(\"write error: {}\", e)));\n                }", "                let _ = std::fs::write(&file_path, &bytecode);")], "batch mode ignores write errors and exits 0"),
 "c13_python_setting_lost_again": (["C13"], [("src/python.rs", "        self.inner.min_opcodes = min;\n        self.inner.max_opcodes = max;", "        let version = self.inner.state.version;\n        self.inner = Generator::new(version).with_opcode_range(min, max);")], "Python set_opcode_range rebuilds the generator (the fixed defect, re-opened)"),
 # ---- C14
 "c14_popped_cell_forgotten": (["C14"], [(S, "            Pop => {\n                self.pop();\n            }", "            Pop => {\n                if let Some(x) = self.pop() {\n                    std::mem::forget(x);\n                }\n            }")], "POP leaks the popped cell"),
 "c14_dup_aliases_again": (["C14"], [(S, "                if let Some(copy) = copy {\n                    self.push(copy);\n                }", "                if copy.is_some() {\n                    let top = self.peek().unwrap().clone();\n                    self.state.stack.inner.push(top);\n                }")], "DUP aliases the same cell again (the fixed defect, re-opened)"),
 # ---- C15
 "c15_rate_one_not_exact": (["C15"], [(MM, "    if rate >= 1.0 {\n        return false;\n    }\n", "")], "rate 1.0 falls back to comparing the raw draw"),
 "c15_rate_clamped_inside": (["C15"], [(G, "self.mutation_rate = rate.clamp(0.0, 1.0);", "self.mutation_rate = rate.clamp(0.01, 0.99);")], "with_mutation_rate clamps to [0.01, 0.99]"),
 # ---- C16
 "c16_bitflip_two_bits": (["C16"], [("src/mutators/bitflip.rs", "        let bit_pos = source.gen_range(0, 32);\n        Some(value ^ (1 << bit_pos))", "        let bit_pos = source.gen_range(0, 31);\n        Some(value ^ (3 << bit_pos))")], "bit flip flips two bits"),
 "c16_offbyone_plus_two": (["C16"], [("src/mutators/offbyone.rs", "    fn mutate_int(&self, value: i32, source: &mut GenerationSource, rate: f64) -> Option<i32> {\n        if skip_mutation(source, rate) {\n            return None;\n        }\n        if source.gen_bool() {\n            Some(value.wrapping_add(1))", "    fn mutate_int(&self, value: i32, source: &mut GenerationSource, rate: f64) -> Option<i32> {\n        if skip_mutation(source, rate) {\n            return None;\n        }\n        if source.gen_bool() {\n            Some(value.wrapping_add(2))")], "off-by-one adds two"),
 "c16_character_appends": (["C16"], [("src/mutators/character.rs", "        chars[idx] = (source.gen_u8() % 94 + 33) as char;", "        chars.insert(idx, (source.gen_u8() % 94 + 33) as char);")], "character mutator inserts instead of replacing"),
 # ---- C17
 "c17_tuple2_simulated_as_list": (["C17"], [(S, "                    self.push(StackObject::Tuple(vec![first, second]));", "                    self.push(StackObject::List(vec![first, second]));")], "TUPLE2's simulated result is a list"),
 "c17_pop_not_simulated": (["C17"], [(S, "            Pop => {\n                self.pop();\n            }", "            Pop => {}")], "POP has no simulated stack effect"),
 "c17_memoize_wrong_key": (["C17"], [(S, "                    self.put(self.state.memo.len(), top.borrow().clone());", "                    self.put(self.state.memo.len() + 1, top.borrow().clone());")], "MEMOIZE stores under len+1 in the simulation"),
 # ---- C18
 "c18_gen_range_inclusive": (["C18"], [(SRC, "u.int_in_range(min..=max.saturating_sub(1)).unwrap_or(min)", "u.int_in_range(min..=max).unwrap_or(min)")], "bytes-mode gen_range includes the upper bound"),
 "c18_choose_index_zero_alternatives": (["C18"], [(SRC, "        if max == 0 {\n            return 0;\n        }", "        if max == 0 {\n            return 1;\n        }")], "choose_index(0) returns 1"),
 # ---- benign edits: every check must stay green
 "benign_string_length_mod_24": ([], [(E, "        // generate a random short string\n        let len = (source.gen_u8() % 32) as usize;", "        // generate a random short string\n        let len = (source.gen_u8() % 24) as usize;")], "shorter random strings"),
 "benign_extra_entropy_draw": ([], [(E, "        // create snapshot before emission\n        let snapshot = self.create_snapshot();", "        // create snapshot before emission\n        let _ = source.gen_bool();\n        let snapshot = self.create_snapshot();")], "one extra entropy draw per emission"),
 "benign_prefer_values_on_empty_stack": ([], [(V, "        // uniform random selection\n        let idx = source.choose_index(opcodes.len());\n        opcodes[idx]", "        // prefer a value when the stack is empty\n        if self.state.stack.len() == 0 && opcodes.contains(&OpcodeKind::None) && source.gen_bool() {\n            return OpcodeKind::None;\n        }\n        let idx = source.choose_index(opcodes.len());\n        opcodes[idx]")], "weighted opcode choice"),
 "benign_global_pushes_plain_global": ([], [(S, "                        // wrap global in Callable since it can be invoked by REDUCE\n                        self.push(StackObject::Callable(global));\n                    }\n                }\n            }\n            StackGlobal", "                        // wrap global in Callable since it can be invoked by REDUCE\n                        let g2 = global.borrow().clone();\n                        self.push(g2);\n                    }\n                }\n            }\n            StackGlobal")], "GLOBAL pushes a Global instead of Callable(Global) (both count as callable)"),
}

def main():
    os.makedirs(OUT, exist_ok=True)
    for f in os.listdir(OUT):
        if f.endswith(".patch"):
            os.remove(os.path.join(OUT, f))
    wt = tempfile.mkdtemp(prefix="pfmut-", dir="/tmp")
    subprocess.run(["git", "-C", "/repo", "worktree", "add", "--detach", "-f", wt, "HEAD"], check=True, capture_output=True)
    index = {}
    try:
        for name, (props, edits, desc) in MUTANTS.items():
            for (f, old, new) in edits:
                p = os.path.join(wt, f)
                s = open(p).read()
                if s.count(old) != 1:
                    print("!! %s: pattern occurs %d times in %s" % (name, s.count(old), f))
                    sys.exit(1)
                open(p, "w").write(s.replace(old, new, 1))
            diff = subprocess.run(["git", "-C", wt, "diff"], capture_output=True, text=True).stdout
            open(os.path.join(OUT, name + ".patch"), "w").write(diff)
            subprocess.run(["git", "-C", wt, "checkout", "--", "."], check=True)
            index[name] = {"expected_to_fail": props, "description": desc}
    finally:
        subprocess.run(["git", "-C", "/repo", "worktree", "remove", "--force", wt], capture_output=True)
    json.dump(index, open(os.path.join(OUT, "index.json"), "w"), indent=1)
    print("wrote %d mutants" % len(index))

if __name__ == "__main__":
    main()
