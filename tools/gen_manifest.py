#!/usr/bin/env python3
# writes /verif/MANIFEST.json from the table below (single source of truth for the interface)
import json, os, subprocess
ROOT = os.path.dirname(os.path.dirname(os.path.abspath(__file__)))

TRUST = ("Trusted base: reference models R1-R4 in /verif/sim/src (lexer.rs, machine.rs, props.rs), written from CPython 3.11 "
         "pickletools and cross-checked against the live module on every run; the verif hooks only observe; sampling, not proof.")

SIM = "deterministic simulation with fault injection: "
CHECKS = {
 "C01": ("exploration", SIM + "seeded search over the entropy seam (PRNG seeds / fuzzer scripts with cut, hostile-f64 and stuck-byte faults) x swarm configurations; plus extremal-state runs (adaptive search over periodic/exhausted scripts), long-lived generators, enumeration of the decision tree to depth 2/3 by steering, and a model-based state cover; oracle = exact emulation of pickletools.dis (R2)",
         "Every output of a seeded batch of simulated runs is replayed through an exact emulation of pickletools.dis's symbolic stack check. Seeded search, not enumeration: a clean batch is evidence, not proof.", "DESIGN.md §5 C01", ""),
 "C02": ("exploration", SIM + "seeded search biased to >256 memo stores and index-perturbing mutators at rate 1.0, plus threshold runs (memo size driven to exactly 255/256/257 by a stuck source, then every next opcode with edge-valued index bytes); oracle = memo rules of the pickletools.dis emulation (R2)",
         "Seeded simulated runs, biased to long in-run histories (1000-6000 opcodes) and to offbyone/memoindex mutators at rate 1.0; each PUT/GET-family opcode is judged by R2's memo rules.", "DESIGN.md §5 C02", ""),
 "C03": ("exploration", SIM + "seeded search over entropy streams/faults and configurations; plus decision-tree enumeration to depth 2/3 by steering the real generator, a model-based state cover of the object-graph fragment, extremal-state runs, and an anomaly-directed exploration of the GLOBAL data table (every entry x consumer programs x next opcode; entries whose simulated-state signature deviates are explored deeper); oracle = kind-tracking reference machine (R3) applying the operand rules of the statement",
         "Each output is replayed through the kind-tracking reference machine R3 and every typed opcode's operands are checked against the rules in the statement. The bounded-depth enumeration clause of the quantifier is replaced by seeded search plus exhaustive scripts of <= 2 bytes (thorough).", "DESIGN.md §5 C03", ""),
 "C04": ("exploration", SIM + "seeded search incl. unsafe mutators (the generator's own byte-rewriting fault injectors) at high rates, plus argument sweeps placing integer width/sign edge images at every offset of every opcode's argument window; oracle = reference lexer (R1) with argument grammars and domains",
         "Outputs under every configuration incl. unsafe rewrites are decoded by the reference lexer R1 (grammar + domain of every argument, single trailing STOP).", "DESIGN.md §5 C04", ""),
 "C05": ("exploration", SIM + "seeded search over solo runs and multi-call histories; oracle = introduced-in-protocol column and header rules on R1's decode, tail attributed by phase markers",
         "Opcode vocabulary and PROTO header of every generation call (also the n-th call on a reused generator) are judged on R1's decode.", "DESIGN.md §5 C05", ""),
 "C06": ("exploration", SIM + "seeded search incl. unsafe byte rewrites and reused generators; oracle = FRAME count/position/length arithmetic on R1's decode",
         "FRAME uniqueness, position and exact length are recomputed from the decoded stream for every call, including under type-confusion rewrites.", "DESIGN.md §5 C06", ""),
 "C08": ("exploration", SIM + "seeded search over call histories (generate / generate_from_arbitrary / reset / reconfigure) on one generator; oracle = fresh generator executing only the last call",
         "History exploration: each generation call of a seeded 1..8-operation history is compared byte-for-byte with a fresh generator (reference = the code itself run without history).", "DESIGN.md §5 C08", ""),
 "C10": ("exploration", SIM + "seeded search over the four flag combinations x all other configuration incl. unsafe rewrites, flag toggling on used generators and stuck-source runs past 2^16 stack items followed by free-running choices; oracle = opcode set on R1's decode",
         "Configuration invariant decided on the recorded outputs of seeded simulated runs.", "DESIGN.md §5 C10", ""),
 "C11": ("exploration", SIM + "seeded search over all opcode-range classes, entropy exhaustion and histories, plus table sweeps (every GLOBAL table entry x steered consumer programs); oracle = phase markers / per-emission records vs R1's opcode count",
         "T is read from the trace hook, body records and decoded opcodes are counted, tail and total bounds recomputed, for every call.", "DESIGN.md §5 C11", ""),
 "C17": ("exploration", SIM + "invariant checked while the run proceeds (also on decision-tree nodes to depth 2/3, model-based state-cover programs, extremal-state and long-lived-generator runs): per-emission snapshots of the simulated stack/memo vs the kind-tracking reference machine (R3) under the compatibility relation R4",
         "Step-by-step refinement check of the generator's simulated state against R3 on every prefix of every generated pickle of a seeded batch. Bounded-depth enumeration is replaced by seeded search plus exhaustive scripts of <= 2 bytes (thorough).", "DESIGN.md §5 C17", "Long runs (> 6000 opcodes) compare every 64th snapshot."),
 "C09": ("exploration", SIM + "seeded search over entropy faults (exhaustion at every point, hostile f64, stuck bytes), degenerate/out-of-range configuration and call histories, and extremal-state runs found by an adaptive search (periodic scripts maximising nesting/stack/marks/memo/output, extreme state x every next opcode), executed in supervised child processes with an address-space limit (crash/abort/stack-overflow/OOM/hang observed from outside); exhaustive for fuzzer scripts of <= 1 byte (quick) / <= 2 bytes (thorough)",
         "Totality is observed from outside the process: shards run in child workers on 2 MiB stacks with a BEGIN/END protocol, catch_unwind for panics, a watchdog whose kills are confirmed by a solo re-execution before being called a hang.", "DESIGN.md §5 C09", "Allocation failure is not injected (it aborts)."),
 "C12": ("exploration", "reach probes (sometimes-assertions) of the deterministic simulator over a fixed seed range with default settings; no fault or schedule is involved",
         "Existential property: a witness seed per (protocol, opcode) pair is searched in a fixed seed window; a clean run exhibits the witnesses, a failing run means no witness within the stated budget.", "DESIGN.md §5 C12", "Required vocabulary = pickletools opcodes with proto <= P."),
 "C14": ("exploration", SIM + "seeded search over generate/reset/reconfigure/drop histories with a counting global allocator as the conservation oracle (live bytes before construction == after drop, steady state under repetition), plus soak runs on long-lived generators and model-based synthesis of cycle-forming object-graph programs steered through the real generator",
         "History exploration with a conservation oracle on the allocator seam; every history is executed twice and only the second execution is measured.", "DESIGN.md §5 C14", "Allocation failure is not injected."),
 "C15": ("fault_enumeration", SIM + "fault-point enumeration on the entropy reader: every mutator method called directly on real sources (PRNG seeds; fuzzer scripts cut at every length, hostile f64 patterns at the gate and elsewhere) at rate 0.0 and 1.0, plus in-situ Spy records of seeded simulated runs",
         "Rate extremes are checked (a) in situ with Spy-wrapped real mutators inside seeded runs and (b) by enumerating fault points of the entropy reader for direct calls.", "DESIGN.md §5 C15", ""),
 "C16": ("fault_enumeration", SIM + "value grid x entropy fault points for direct calls of every Mutator method, plus contract checks on every Spy record of seeded simulated runs",
         "Each firing of a mutator, in situ or in a direct call on boundary values and exhausted/hostile entropy, is checked against the documented contract; panics are caught.", "DESIGN.md §5 C16", ""),
 "C18": ("fault_enumeration", SIM + "end-of-stream / short-read fault enumeration on the entropy seam: every EntropySource method x argument grid x ALL fuzzer scripts of length <= 2, sampled longer scripts at every cut, and a PRNG-side boundary hunt (billions of draws over spans around 2^32 and seeded spans in every magnitude class) and an extreme-word hunt (the ChaCha8 stream is scanned for all-ones/zero/sign-boundary words and every bounded method is executed on a generator positioned exactly there)",
         "The adapters' range contracts and fixed fallbacks are enumerated over all short scripts and sampled beyond.", "DESIGN.md §5 C18", "gen_bytes(usize::MAX) excluded: allocation failure aborts."),
 "C07": ("exploration", SIM + "seeded baton scheduler over real OS threads (one runs at a time, hand-over at every emission step; policies bursty/uniform/round-robin/PCT-style), twin tasks under simulator-chosen memo hash keys, colocated tasks per worker, clock-jump faults through an LD_PRELOAD clock seam, plus the same scenario batch in fresh processes; oracle = byte equality with the task run alone",
         "Interleavings of concurrent generator instances, hash-map seeds and task placement are chosen by a seeded scheduler and are exactly replayable from the recorded schedule string; separate processes are sampled, not controlled.", "DESIGN.md §5 C07", "rayon scheduling inside the CLI, ASLR and the seeds of pointer-keyed sets are varied but not chosen."),
 "C13": ("exploration", SIM + "real front ends (hook-free CLI binary, action wrapper script, _native Python extension) driven with simulator-drawn options, call sequences and path-keyed filesystem faults (ENOSPC/EISDIR/ENOENT/ENOTDIR, stale files, mass-fault plans with 255/256/257/512/all failing writes) at sampled rayon worker counts, the Atheris harness driven through a stub; oracle = hooked library with the corresponding configuration",
         "Front ends are real binaries/modules built from the working tree; the option space and Python call sequences are sampled by seed; write faults are planted by path so they do not depend on the rayon schedule, which is only sampled via worker counts.", "DESIGN.md §5 C13", "atheris is stubbed; unseeded runs are only checked structurally."),
}
PENDING = "check under construction in this session (see DESIGN.md §5)"
NOT_APPLICABLE = {}

def main():
    checks = []
    for pid in sorted(CHECKS):
        cat, tech, text, ref, note = CHECKS[pid]
        checks.append({
            "property_id": pid,
            "quick_cmd": "./check %s quick" % pid,
            "thorough_cmd": "./check %s thorough" % pid,
            "evidence_file": "/verif/evidence/%s.json" % pid,
            "replay_cmd_template": "./check replay {path}",
            "engine": "pfsim",
            "level_claimed": {"category": cat, "text": text, "design_ref": ref},
            "level_note": (TRUST + " " + note).strip(),
            "technique": tech,
        })
    hooks_commits = subprocess.run(["git", "-C", "/repo", "log", "--format=%H %s"], capture_output=True, text=True).stdout.splitlines()
    hook_shas = [l.split()[0] for l in hooks_commits if l.split(" ", 1)[1].startswith("verif hooks")]
    m = {
        "version": 1,
        "setup_cmd": "./check build",
        "hooks": {
            "guard": "cargo feature `verif` of cisco-ai-defense-pickle-fuzzer (off by default)",
            "enable": "the harness crate /verif/sim depends on /repo by path with features=[\"verif\"]; cargo rebuilds it from /repo's working tree on every ./check",
            "baseline_off_cmd": "cd /repo && cargo test --workspace --no-fail-fast --offline",
            "source_commits": hook_shas,
            "add_only": True,
        },
        "engines": [{"name": "pfsim", "path": "/verif/sim", "serves_properties": sorted(CHECKS),
                     "kind_free_text": "Rust harness: seeded deterministic simulator over the entropy seam, call histories, a baton thread scheduler, fault injection; reference pickle machines as oracles; replay + minimisation"}],
        "checks": checks,
        "not_applicable": [{"property_id": k, "reason": v} for k, v in sorted(NOT_APPLICABLE.items())],
        "notes": "See DESIGN.md. exit 0 = held, 1 = VIOLATION line with replay file, 2 = harness error. known_findings.json lists fixed/known defects.",
    }
    json.dump(m, open(os.path.join(ROOT, "MANIFEST.json"), "w"), indent=1)
    print("wrote MANIFEST.json with", len(checks), "checks,", len(NOT_APPLICABLE), "not applicable")
if __name__ == "__main__":
    main()
