#!/usr/bin/env python3
"""Independent confirmation of a sub-agent's seeded change before it is kept under /verif/seeded/<id>/:
in a fresh scratch worktree of /repo (never /repo itself)
  1. the demonstration passes on the unchanged tree,
  2. with patch.diff applied the unedited test suite still passes,
  3. with patch.diff applied the demonstration fails.
usage: tools/verify_seeded.py <src_dir with out/> <ID> [name]     e.g. /tmp/seed/C03 C03
"""
import json, os, shutil, subprocess, sys, time

ROOT = os.path.dirname(os.path.dirname(os.path.abspath(__file__)))

def sh(cmd, cwd, timeout=1800, env=None):
    e = dict(os.environ)
    e["CARGO_NET_OFFLINE"] = "true"
    e["CARGO_TARGET_DIR"] = os.path.join(ROOT, "target", "seedverify")
    if env:
        e.update(env)
    p = subprocess.run(cmd, cwd=cwd, env=e, capture_output=True, text=True, timeout=timeout, shell=isinstance(cmd, str))
    return p.returncode, (p.stdout + p.stderr)

def main():
    src, pid = sys.argv[1], sys.argv[2]
    name = sys.argv[3] if len(sys.argv) > 3 else pid
    out = os.path.join(src, "out")
    meta = json.load(open(os.path.join(out, "meta.json")))
    demo_cmd = meta.get("demo_command") or "cargo test --offline --test seeded_demo"
    if len(sys.argv) > 4:
        demo_cmd = sys.argv[4]
    wt = "/tmp/pfv/%s" % name
    subprocess.run(["git", "-C", "/repo", "worktree", "remove", "--force", wt], capture_output=True)
    shutil.rmtree(wt, ignore_errors=True)
    os.makedirs("/tmp/pfv", exist_ok=True)
    subprocess.run(["git", "-C", "/repo", "worktree", "add", "--detach", "-f", wt, "HEAD"], check=True, capture_output=True)
    report = {"id": name, "property": pid, "demo_command": demo_cmd}
    try:
        demo_files = [f for f in os.listdir(out) if f.startswith("seeded_demo") or f.startswith("demo")]
        for f in demo_files:
            if f.endswith(".rs"):
                shutil.copy(os.path.join(out, f), os.path.join(wt, "tests", f))
            else:
                os.makedirs(os.path.join(wt, "out"), exist_ok=True)
                shutil.copy(os.path.join(out, f), os.path.join(wt, "out", f))
        # some demo commands cd into the agent's directory: run them in our worktree instead
        cmd = demo_cmd.replace(src, wt)
        t0 = time.time()
        rc0, o0 = sh(cmd, wt)
        report["demo_on_unchanged_tree"] = "passes" if rc0 == 0 else "FAILS"
        report["demo_unchanged_tail"] = o0[-300:]
        rc, o = sh(["git", "apply", os.path.join(out, "patch.diff")], wt)
        report["patch_applies"] = rc == 0
        if rc != 0:
            report["error"] = o[-300:]
        else:
            # the unedited suite: the demo file is moved out of tests/ for this run
            stash = []
            for f in demo_files:
                q = os.path.join(wt, "tests", f)
                if os.path.exists(q):
                    shutil.move(q, os.path.join(wt, f + ".aside"))
                    stash.append((os.path.join(wt, f + ".aside"), q))
            rc1, o1 = sh(["cargo", "test", "--workspace", "--no-fail-fast", "--offline"], wt)
            for a, b in stash:
                shutil.move(a, b)
            passed = sum(int(l.split("ok. ")[1].split(" passed")[0]) for l in o1.splitlines() if l.startswith("test result: ok."))
            report["suite_with_change"] = "passes (%d tests incl. doctests)" % passed if rc1 == 0 else "FAILS"
            if rc1 != 0:
                report["suite_tail"] = o1[-500:]
            rc2, o2 = sh(cmd, wt)
            report["demo_with_change"] = "fails" if rc2 != 0 else "PASSES"
            report["demo_changed_tail"] = o2[-400:]
            report["confirmed"] = (rc0 == 0 and rc1 == 0 and rc2 != 0)
        report["wall_s"] = round(time.time() - t0, 1)
    finally:
        subprocess.run(["git", "-C", "/repo", "worktree", "remove", "--force", wt], capture_output=True)
        shutil.rmtree(wt, ignore_errors=True)
    print(json.dumps(report, indent=1))
    if report.get("confirmed"):
        dst = os.path.join(ROOT, "seeded", name)
        os.makedirs(dst, exist_ok=True)
        shutil.copy(os.path.join(out, "patch.diff"), dst)
        for f in demo_files:
            shutil.copy(os.path.join(out, f), dst)
        if os.path.exists(os.path.join(out, "README.md")):
            shutil.copy(os.path.join(out, "README.md"), os.path.join(dst, "AGENT_README.md"))
        m = {
            "id": name,
            "breaks": [pid],
            "summary": meta.get("summary"),
            "needs_to_manifest": meta.get("what_it_needs_to_manifest"),
            "files_touched": meta.get("files_touched"),
            "why_existing_tests_do_not_catch_it": meta.get("why_existing_tests_do_not_catch_it"),
            "demo_command": demo_cmd,
            "origin": "written by a sub-agent that saw only the property text and a scratch worktree of /repo (nothing from /verif)",
            "confirmed_by_me": {k: report[k] for k in ["demo_on_unchanged_tree", "suite_with_change", "demo_with_change"]},
            "what_i_ran": "tools/verify_seeded.py: fresh worktree of /repo HEAD; demo on the unchanged tree; git apply patch.diff; cargo test --workspace --no-fail-fast --offline; demo again",
        }
        json.dump(m, open(os.path.join(dst, "meta.json"), "w"), indent=1)
        print("kept as", dst)
        sys.exit(0)
    sys.exit(1)

if __name__ == "__main__":
    main()
