#!/usr/bin/env python3
"""Writes the prompt given to a sub-agent that seeds a property-breaking change (only the property's
text and a scratch worktree path; nothing from /verif).  usage: make_seed_prompt.py <ID> <worktree>"""
import json, sys
pid, wt = sys.argv[1], sys.argv[2]
base = wt.rsplit("/", 1)[0]
prop = [json.loads(l) for l in open("/verif/properties.jsonl") if json.loads(l)["id"] == pid][0]
print(f"""You are working in a scratch git worktree at {wt} — a checkout of the Rust project cisco-ai-defense/pickle-fuzzer (a structure-aware generator of Python pickle bytecode, protocols 0-5, that simulates the pickle VM stack and memo, with mutators; library + CLI + optional Python bindings). Work ONLY inside {wt}. Do NOT read or touch /verif or /repo or any other {base}/* directory. There is no network: always pass --offline to cargo (and set CARGO_NET_OFFLINE=true).

A semantic property that the project is supposed to satisfy:

Property {pid}: {prop['title']}

Statement: {prop['statement']}

Quantifier: {prop['quantifier']['text']}


YOUR TASK: produce a realistic change to the project's source (the kind of slip a maintainer could plausibly make in a refactoring, optimisation or feature tweak — not sabotage that is obvious at a glance) that BREAKS this property, while
  (a) the crate still compiles and the whole existing test suite still passes: `cargo test --workspace --no-fail-fast --offline` (61 unit/integration tests + doctests), unedited; and
  (b) the breakage needs something specific to manifest — e.g. a particular input or seed class, a fault/exhaustion at a particular point, a multi-step sequence of calls, a particular configuration corner, a particular thread interleaving or count of earlier calls, or two cooperating sites that each look fine alone. It must NOT be something that ordinary default use would expose at once (e.g. not "every output is wrong"). Aim high: imagine a checker that generates a few hundred thousand random configurations and inputs in ten seconds and inspects every output — make the breakage the kind of thing such sampling would probably still MISS (think beyond a single unusual input: a rare conjunction of state, a long or oddly shaped history, a threshold that is only crossed in unusual configurations, a dependency on earlier activity in the same thread or process, a corner of an option combination), while your own demo still triggers it deterministically.
Keep the change small (ideally under 40 changed lines), confined to files under src/, scripts/ or python/. Do not edit tests, Cargo.toml features, src/verif.rs, or any line guarded by cfg(feature = "verif") (those are observation hooks; leave them exactly as they are).

DELIVERABLES (all under {wt}/out/):
  1. patch.diff — the change as `git diff` output against HEAD (only the source change, not the demo). Leave the change applied in the worktree as uncommitted modifications too.
  2. A demonstration that FAILS with the change and PASSES without it: preferably a new integration test file tests/seeded_demo.rs (keep a copy at out/seeded_demo.rs; it is NOT part of patch.diff) runnable with `cargo test --offline --test seeded_demo`; a small shell/python script is fine if the property concerns the CLI or scripts. The demo may take up to a minute or so to run. It may use only what is already available offline (the crate's own dependencies and dev-dependencies, python3 standard library incl. pickletools).
  3. meta.json — {{"property": "{pid}", "summary": "...", "what_it_needs_to_manifest": "...", "files_touched": [...], "demo_command": "...", "why_existing_tests_do_not_catch_it": "..."}}.
  4. README.md — a few lines: what the change is, how it breaks the property, how to run the demo.

VERIFY YOURSELF before finishing, and state the results in your final message: (i) with the change applied: full test suite passes, demo fails; (ii) with the change reverted: demo passes. IMPORTANT: do NOT use `git stash` (the stash is shared between several worktrees used by other people and gets mixed up); to revert temporarily use `git diff -- src scripts python > out/patch.diff && git apply -R out/patch.diff`, run the demo, then `git apply out/patch.diff` to re-apply. Be economical with builds (each cargo build takes a while); use the default target dir inside the worktree.""")
