#!/bin/bash
# runs every check of MANIFEST.json at the given tier and prints a one-line summary per property
tier="${1:-quick}"
cd "$(dirname "$0")/.."
for p in C01 C02 C03 C04 C05 C06 C07 C08 C09 C10 C11 C12 C13 C14 C15 C16 C17 C18; do
  s=$(date +%s.%N)
  out=$(./check $p $tier 2>&1); code=$?
  e=$(date +%s.%N)
  printf "%s exit=%d %.1fs  %s\n" $p $code $(echo "$e - $s" | bc) "$(echo "$out" | grep -E '^(done|VIOLATION|KNOWN|HARNESS)' | tr '\n' ' ' | cut -c1-220)"
done
